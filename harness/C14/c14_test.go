//go:build verif

// C14: snapshot files read back intact; any corruption is detected, not loaded.
//
// White-box harness in package rsm over an in-memory FS, driving the REAL
// snapshot writer / reader / compressor pipeline exactly the way
// snapshotter.Save / snapshotter.Load / snapshotter.Stream compose it, the REAL
// SnapshotValidator the way transport.Chunk feeds it, ShrinkSnapshot /
// ReplaceSnapshot / IsShrunkSnapshotFile and GetV2PayloadChecksum.
//
// The build runs with settings.SnapshotChunkSize (rsm.blockSize, rsm.ChunkSize)
// scaled from 2 MiB to 2 KiB by a generated overlay copy of settings/hard.go.
package rsm

import (
	"bytes"
	"encoding/binary"
	"encoding/hex"
	"fmt"
	"hash/crc32"
	"io"
	"sort"
	"strings"
	"testing"

	"github.com/golang/snappy"

	"github.com/lni/dragonboat/v4/internal/settings"
	"github.com/lni/dragonboat/v4/internal/utils/dio"
	"github.com/lni/dragonboat/v4/internal/verifkit"
	"github.com/lni/dragonboat/v4/internal/vfs"
	"github.com/lni/dragonboat/v4/logger"
	pb "github.com/lni/dragonboat/v4/raftpb"
)

const (
	c14B        = int(blockSize)
	c14Hdr      = int(HeaderSize)
	c14Expected = 2048 // the scaled block size this harness was sized for
	c14Whole    = -1   // segment size: "everything that is left"
)

// ---------------------------------------------------------------- inputs

type c14Cfg struct {
	V    int    `json:"v"`    // snapshot format version of the file: 1 | 2
	CT   int    `json:"ct"`   // 0 none, 1 snappy
	Kind string `json:"kind"` // rnd (incompressible) | pat (compressible)
	Len  int    `json:"len"`  // bytes the state machine writes
}

func (c c14Cfg) String() string {
	return fmt.Sprintf("v%d/%s/%s/len=%d", c.V, []string{"none", "snappy"}[c.CT], c.Kind, c.Len)
}

func (c c14Cfg) ct() pb.CompressionType {
	if c.CT == 1 {
		return pb.Snappy
	}
	return pb.NoCompression
}

// c14Payload is a deterministic byte stream; "rnd" is incompressible, "pat" has
// period 251 and compresses well. Bytes 8..16 are never all zero for n >= 16.
func c14Payload(kind string, n int) []byte {
	out := make([]byte, n)
	x := uint64(0x9E3779B97F4A7C15) ^ uint64(n)*0xBF58476D1CE4E5B9
	for i := range out {
		x ^= x << 13
		x ^= x >> 7
		x ^= x << 17
		out[i] = byte(x >> 24)
	}
	if kind == "pat" {
		for i := 251; i < n; i++ {
			out[i] = out[i-251]
		}
	}
	if n >= 16 {
		out[9] |= 1
	}
	return out
}

// c14SnappyLen returns the length of the snappy framed stream of p.
func c14SnappyLen(p []byte) int {
	var b bytes.Buffer
	w := snappy.NewBufferedWriter(&b)
	_, _ = w.Write(p)
	_ = w.Close()
	return b.Len()
}

// c14Lengths: payload lengths 0, 1 and around the block size and its
// multiples; for snappy additionally the lengths whose COMPRESSED stream hits
// the same boundary values (the block arithmetic sees the compressed stream).
func c14Lengths(run *verifkit.Run, ct int) []int {
	B := c14B
	base := []int{0, 1, 16, 17, B - 4, B - 3, B - 1, B, B + 1, B + 4, 2*B - 1, 2 * B, 2*B + 1, 3 * B, 3*B + 7}
	if run.Thorough() {
		base = append(base, 2, 3, 4, 5, B-5, B+3, B+5, 2*B-4, 2*B+4, 3*B-1, 3*B+1, 4*B, 5*B+3, 6*B)
	}
	set := map[int]bool{}
	for _, l := range base {
		set[l] = true
	}
	if ct == 1 {
		for _, l := range base {
			if l < B-1 {
				continue
			}
			// incompressible data: framed length = l + constant overhead
			for d := 0; d <= 64; d++ {
				if l-d > 0 && c14SnappyLen(c14Payload("rnd", l-d)) == l {
					set[l-d] = true
					break
				}
			}
		}
	}
	out := make([]int, 0, len(set))
	for l := range set {
		out = append(out, l)
	}
	sort.Ints(out)
	return out
}

func c14Cfgs(run *verifkit.Run) []c14Cfg {
	var out []c14Cfg
	for _, v := range []int{2, 1} {
		for _, ct := range []int{0, 1} {
			for _, l := range c14Lengths(run, ct) {
				out = append(out, c14Cfg{V: v, CT: ct, Kind: "rnd", Len: l})
			}
			if ct == 1 {
				// compressible payloads: real snappy "compressed" chunks, and a
				// payload spanning two snappy frames (> 64 KiB)
				ls := []int{5000, 70000}
				if run.Thorough() {
					ls = append(ls, 300, 65536, 65537, 140000)
				}
				for _, l := range ls {
					out = append(out, c14Cfg{V: v, CT: ct, Kind: "pat", Len: l})
				}
			}
		}
	}
	return out
}

// segment patterns: sequences of <= 3 sizes from the boundary set, applied
// cyclically until the payload is exhausted.
func c14SegSet(run *verifkit.Run) []int {
	B := c14B
	s := []int{1, 7, B - 1, B, B + 1, c14Whole}
	if run.Thorough() {
		s = []int{1, 2, 7, B - 4, B - 1, B, B + 1, 2*B + 1, c14Whole}
	}
	return s
}

func c14Patterns(run *verifkit.Run) [][]int {
	set := c14SegSet(run)
	var out [][]int
	for _, a := range set {
		out = append(out, []int{a})
	}
	for _, a := range set {
		for _, b := range set {
			out = append(out, []int{a, b})
		}
	}
	for _, a := range set {
		for _, b := range set {
			for _, c := range set {
				out = append(out, []int{a, b, c})
			}
		}
	}
	return out
}

// c14Cuts materialises pattern p over n bytes (sum == n). With cover > 0 the
// sequence is extended to cover n+cover bytes (read buffer sizes: the reader
// has to run into EOF).
func c14Cuts(p []int, n int, cover int) []int {
	var out []int
	left := n + cover
	for i := 0; left > 0; i++ {
		s := p[i%len(p)]
		if s == c14Whole {
			s = left
			if cover > 0 {
				s = left + 15
			}
		}
		if cover == 0 && s > left {
			s = left
		}
		out = append(out, s)
		left -= s
	}
	return out
}

func c14CutsKey(c []int) string {
	var sb strings.Builder
	for _, x := range c {
		fmt.Fprintf(&sb, "%d,", x)
	}
	return sb.String()
}

// c14DistinctCuts returns the distinct cut sequences of all patterns.
func c14DistinctCuts(pats [][]int, n int, cover int) [][]int {
	seen := map[string]bool{}
	var out [][]int
	for _, p := range pats {
		c := c14Cuts(p, n, cover)
		k := c14CutsKey(c)
		if seen[k] {
			continue
		}
		seen[k] = true
		out = append(out, c)
	}
	return out
}

// ---------------------------------------------------------------- SUT drivers

type c14File struct {
	bytes    []byte
	recSize  uint64 // pb.Snapshot.FileSize as snapshotter.Save records it
	recSum   []byte // pb.Snapshot.Checksum as snapshotter.Save records it
	diskData int    // bytes handed to the SnapshotWriter (after compression)
}

func c14ReadAll(fs vfs.IFS, fp string) []byte {
	f, err := fs.Open(fp)
	if err != nil {
		panic(err)
	}
	defer f.Close()
	var b bytes.Buffer
	if _, err := io.Copy(&b, f); err != nil {
		panic(err)
	}
	return b.Bytes()
}

func c14WriteFile(fs vfs.IFS, fp string, data []byte) {
	f, err := fs.Create(fp)
	if err != nil {
		panic(err)
	}
	if _, err := f.Write(data); err != nil {
		panic(err)
	}
	if err := f.Close(); err != nil {
		panic(err)
	}
}

// c14Produce writes a snapshot file the way snapshotter.Save does:
// SnapshotWriter <- CountedWriter <- Compressor <- state machine writes.
func c14Produce(fs vfs.IFS, fp string, cfg c14Cfg, payload []byte, cuts []int) (c14File, error) {
	w, err := newVersionedSnapshotWriter(fp, SSVersion(cfg.V), cfg.ct(), fs)
	if err != nil {
		return c14File{}, err
	}
	cw := dio.NewCountedWriter(w)
	sw := dio.NewCompressor(cfg.ct(), cw)
	off := 0
	for _, c := range cuts {
		n, err := sw.Write(payload[off : off+c])
		if err != nil {
			return c14File{}, fmt.Errorf("write: %v", err)
		}
		if n != c {
			return c14File{}, fmt.Errorf("short write %d of %d without error", n, c)
		}
		off += c
	}
	if off != len(payload) {
		panic("harness: cuts do not cover the payload")
	}
	if err := sw.Close(); err != nil {
		return c14File{}, fmt.Errorf("close: %v", err)
	}
	total := cw.BytesWritten()
	return c14File{
		bytes:    c14ReadAll(fs, fp),
		recSum:   w.GetPayloadChecksum(),
		recSize:  w.GetPayloadSize(total) + HeaderSize,
		diskData: int(total),
	}, nil
}

type c14Load struct {
	data []byte
	hdr  pb.SnapshotHeader
	fail string // "" = every step succeeded and the reader reported a clean EOF
}

func c14NoDigits(s string) string {
	out := make([]byte, 0, len(s))
	for i := 0; i < len(s) && len(out) < 60; i++ {
		if s[i] >= '0' && s[i] <= '9' {
			continue
		}
		out = append(out, s[i])
	}
	return string(out)
}

// c14LoadFile reads a snapshot file the way snapshotter.Load does:
// NewSnapshotReader -> Decompressor(header.CompressionType) -> reads -> Close.
// bufs is the sequence of read buffer sizes (cyclic).
func c14LoadFile(fs vfs.IFS, fp string, bufs []int, limit int) (r c14Load) {
	stage := "open"
	msg := verifkit.Catch(func() {
		reader, header, err := NewSnapshotReader(fp, fs)
		if err != nil {
			r.fail = "err@open:" + c14NoDigits(err.Error())
			return
		}
		r.hdr = header
		if header.CompressionType != pb.NoCompression && header.CompressionType != pb.Snappy {
			// snapshotter.compressionType() panics on unknown types
			_ = verifkit.Catch(func() { _ = reader.Close() })
			r.fail = "panic@ct:unknown compression type"
			return
		}
		cr := dio.NewDecompressor(header.CompressionType, reader)
		stage = "read"
		var rerr error
		for i := 0; ; i++ {
			buf := make([]byte, bufs[i%len(bufs)])
			n, err := cr.Read(buf)
			if n < 0 || n > len(buf) {
				r.fail = "BAD-READ-COUNT"
				return
			}
			r.data = append(r.data, buf[:n]...)
			if err != nil {
				rerr = err
				break
			}
			if len(r.data) > limit {
				r.fail = "RUNAWAY"
				return
			}
		}
		if rerr != io.EOF {
			r.fail = "err@read:" + c14NoDigits(rerr.Error())
			// Load returns the error, the deferred Close still runs
			stage = "close-after-error"
			_ = cr.Close()
			return
		}
		stage = "close"
		if err := cr.Close(); err != nil {
			r.fail = "err@close:" + c14NoDigits(err.Error())
		}
	})
	if msg != "" {
		r.fail = "panic@" + stage + ":" + c14NoDigits(msg)
	}
	return r
}

var c14PlainRead = []int{1000}

// ---------------------------------------------------------------- reference model of the file layout

type c14Region struct {
	from, to int // byte offsets [from,to)
	name     string
}

var c14FieldNames = map[uint64]string{1: "SessionSize", 2: "DataStoreSize", 3: "UnreliableTime", 4: "GitVersion",
	5: "HeaderChecksum", 6: "PayloadChecksum", 7: "ChecksumType", 8: "Version", 9: "CompressionType"}

// c14HeaderRegions walks the marshalled SnapshotHeader (protobuf wire format).
func c14HeaderRegions(f []byte) []c14Region {
	sz := int(binary.LittleEndian.Uint64(f[:8]))
	out := []c14Region{{0, 8, "header.len"}}
	d := f[8 : 8+sz]
	i := 0
	uv := func() (uint64, int) {
		v, n := binary.Uvarint(d[i:])
		if n <= 0 {
			panic("harness: cannot walk header")
		}
		return v, n
	}
	for i < len(d) {
		tag, n := uv()
		name := c14FieldNames[tag>>3]
		if name == "" {
			panic("harness: unknown header field")
		}
		out = append(out, c14Region{8 + i, 8 + i + n, "header." + name + ".tag"})
		i += n
		switch tag & 7 {
		case 0:
			_, n := uv()
			out = append(out, c14Region{8 + i, 8 + i + n, "header." + name + ".value"})
			i += n
		case 2:
			l, n := uv()
			out = append(out, c14Region{8 + i, 8 + i + n, "header." + name + ".len"})
			i += n
			if l > 0 {
				out = append(out, c14Region{8 + i, 8 + i + int(l), "header." + name + ".value"})
			}
			i += int(l)
		default:
			panic("harness: unexpected wire type")
		}
	}
	out = append(out, c14Region{8 + sz, 12 + sz, "header.crcslot"})
	out = append(out, c14Region{12 + sz, c14Hdr, "header.padding"})
	return out
}

// c14Regions names every byte of a well formed snapshot file.
func c14Regions(f []byte, v int) []c14Region {
	out := c14HeaderRegions(f)
	if v == 1 {
		if len(f) > c14Hdr {
			out = append(out, c14Region{c14Hdr, len(f), "v1.payload"})
		}
		return out
	}
	end := len(f) - 16
	for off := c14Hdr; off < end; {
		l := c14B + 4
		if off+l > end {
			l = end - off
		}
		out = append(out, c14Region{off, off + l - 4, "block.data"})
		out = append(out, c14Region{off + l - 4, off + l, "block.crc"})
		off += l
	}
	out = append(out, c14Region{end, end + 8, "tail.total"})
	out = append(out, c14Region{end + 8, end + 16, "tail.magic"})
	return out
}

func c14RegionOf(regs []c14Region, off int) string {
	for _, r := range regs {
		if off >= r.from && off < r.to {
			return r.name
		}
	}
	return "beyond-eof"
}

func c14CRC(b []byte) []byte {
	h := crc32.NewIEEE()
	_, _ = h.Write(b)
	return h.Sum(nil)
}

// c14ParseV2 is the reference reading of the v2 layout: blocks of blockSize +
// crc, 16 byte tail. It returns the on-disk payload and the checksum of all
// block checksums, or a description of what is malformed.
func c14ParseV2(f []byte) (data []byte, sum []byte, bad string) {
	if len(f) < c14Hdr+16 {
		return nil, nil, "file shorter than header+tail"
	}
	region := f[c14Hdr : len(f)-16]
	tail := f[len(f)-16:]
	if binary.LittleEndian.Uint64(tail[:8]) != uint64(len(region)) {
		return nil, nil, "tail total does not equal the size of the block region"
	}
	if !bytes.Equal(tail[8:], settings.BlockFileMagicNumber) {
		return nil, nil, "tail magic missing"
	}
	var crcs []byte
	for len(region) > 0 {
		l := c14B + 4
		if l > len(region) {
			l = len(region)
		}
		if l <= 4 {
			return nil, nil, "block without data"
		}
		blk := region[:l]
		region = region[l:]
		if !bytes.Equal(c14CRC(blk[:l-4]), blk[l-4:]) {
			return nil, nil, "block crc mismatch"
		}
		data = append(data, blk[:l-4]...)
		crcs = append(crcs, blk[l-4:]...)
	}
	return data, c14CRC(crcs), ""
}

func c14Decompress(ct int, d []byte) ([]byte, error) {
	if ct == 0 {
		return d, nil
	}
	return io.ReadAll(snappy.NewReader(bytes.NewReader(d)))
}

// ---------------------------------------------------------------- validator driver

// c14Validate feeds a chunk stream to the real SnapshotValidator in the order
// transport.Chunk does and reports whether the stream was accepted.
// A stream counts as rejected when any AddChunk returns false, Validate returns
// false, or the validator panics.
func c14Validate(chunks [][]byte) (accepted bool, how string) {
	msg := verifkit.Catch(func() {
		v := NewSnapshotValidator()
		for i, c := range chunks {
			if !v.AddChunk(c, uint64(i)) {
				if i == 0 {
					how = "addchunk0-false"
				} else {
					how = "addchunk-false"
				}
				return
			}
		}
		if !v.Validate() {
			how = "validate-false"
			return
		}
		accepted = true
		how = "accepted"
	})
	if msg != "" {
		return false, "panic:" + c14NoDigits(msg)
	}
	return accepted, how
}

func c14Split(stream []byte, csz int) [][]byte {
	var out [][]byte
	for off := 0; off < len(stream); off += csz {
		e := off + csz
		if e > len(stream) {
			e = len(stream)
		}
		out = append(out, stream[off:e])
	}
	return out
}

// c14SplitAt splits at the given chunk sizes (the chunk layout of the original
// stream), the last chunk takes whatever is left, missing chunks are dropped.
func c14SplitAt(stream []byte, sizes []int) [][]byte {
	var out [][]byte
	off := 0
	for i, s := range sizes {
		if off >= len(stream) && !(s == 0 && off == len(stream)) {
			break
		}
		e := off + s
		if e > len(stream) || i == len(sizes)-1 {
			e = len(stream)
		}
		out = append(out, stream[off:e])
		off = e
	}
	return out
}

// c14Sink is a QUEUEING chunk sink, like the real one: transport's job.AddChunk
// puts the pb.Chunk VALUE on a channel and another goroutine marshals and
// sends it later, while the state machine keeps writing. Receive therefore
// keeps the chunk as handed over (Data slice NOT copied) next to a snapshot of
// its bytes at that moment; the queue is consumed only after the writer was
// closed (c14StreamChunks). A writer that keeps using a buffer it has handed
// to the sink is exposed by that.
type c14Sink struct {
	chunks []pb.Chunk // as handed over, consumed after Close
	atRecv [][]byte   // the chunk bytes at the time of Receive
	closed int
}

func (s *c14Sink) Receive(c pb.Chunk) (bool, bool) {
	s.chunks = append(s.chunks, c)
	s.atRecv = append(s.atRecv, append([]byte(nil), c.Data...))
	return true, false
}
func (s *c14Sink) Close() error        { s.closed++; return nil }
func (s *c14Sink) ShardID() uint64     { return 1 }
func (s *c14Sink) ToReplicaID() uint64 { return 2 }

// c14StreamChunks produces the chunk stream of the streaming path the way
// snapshotter.Stream does: Compressor <- ChunkWriter <- sink, and returns what
// a consumer of the queue sees AFTER the writer was closed (the bytes the real
// transport job would put on the wire). changed describes the first queued
// chunk whose bytes are no longer what they were when it was handed over.
func c14StreamChunks(cfg c14Cfg, payload []byte, cuts []int) (data [][]byte, meta []pb.Chunk, changed string, err error) {
	sink := &c14Sink{}
	m := SSMeta{From: 1, Index: 100, Term: 5, CompressionType: cfg.ct()}
	cw := dio.NewCompressor(cfg.ct(), NewChunkWriter(sink, m))
	off := 0
	for _, c := range cuts {
		n, err := cw.Write(payload[off : off+c])
		if err != nil || n != c {
			return nil, nil, "", fmt.Errorf("write %d: n=%d err=%v", c, n, err)
		}
		off += c
	}
	if err := cw.Close(); err != nil {
		return nil, nil, "", err
	}
	if sink.closed != 1 {
		return nil, nil, "", fmt.Errorf("sink closed %d times", sink.closed)
	}
	// the queue is consumed now, after Close: wire copy of every chunk
	for i, c := range sink.chunks {
		d := append([]byte(nil), c.Data...)
		if changed == "" && !bytes.Equal(d, sink.atRecv[i]) {
			changed = fmt.Sprintf("chunk %d of %d (%d bytes): its bytes differ from offset %d on from what they were when Receive() got it - the writer kept using the buffer it handed to the sink",
				i, len(sink.chunks), len(d), c14FirstDiff(d, sink.atRecv[i]))
		}
		c.Data = d
		data = append(data, d)
		meta = append(meta, c)
	}
	return data, meta, changed, nil
}

// ---------------------------------------------------------------- part 1: round trip

type c14Replay struct {
	Part  string `json:"part"`
	Cfg   c14Cfg `json:"cfg"`
	WCuts []int  `json:"wcuts,omitempty"`
	RBufs []int  `json:"rbufs,omitempty"`
	// corruption cases
	Kind   string `json:"kind,omitempty"` // file | chunkwriter
	CSize  int    `json:"csize,omitempty"`
	Op     string `json:"op,omitempty"` // flip | trunc | del | dup | excise
	A      int    `json:"a,omitempty"`
	Bv     int    `json:"b,omitempty"`
	Header string `json:"header,omitempty"` // hex of the original 1 KiB header (it contains a timestamp)
}

func c14Setup(t *testing.T) (*verifkit.Run, *verifkit.Result) {
	for _, n := range []string{"rsm", "raftpb", "dio", "fileutil", "settings", "utils", "server"} {
		logger.GetLogger(n).SetLevel(logger.CRITICAL)
	}
	if c14B != c14Expected {
		t.Fatalf("harness error: blockSize is %d, the scaled overlay of settings/hard.go (2048) is not in effect", c14B)
	}
	if ChunkSize != blockSize || HeaderSize != 1024 {
		t.Fatalf("harness error: inconsistent scaled constants ChunkSize=%d blockSize=%d HeaderSize=%d", ChunkSize, blockSize, HeaderSize)
	}
	run := verifkit.Env()
	res := verifkit.NewResult()
	res.MaxViolations = 20
	res.Assumptions = []string{
		"settings.SnapshotChunkSize (rsm block size, streaming chunk size) scaled 2 MiB -> 2 KiB by a generated overlay of internal/settings/hard.go; SnapshotHeaderSize (1 KiB) unchanged; the real 2 MiB block is NOT exercised by this check",
		"in-memory strict MemFS (lni/vfs) instead of a disk",
		"payload bytes are deterministic pseudo-random (rnd) or period-251 (pat) streams; lengths/segmentations are exhaustive within the stated sets, content is not",
		"a panic of the reader/validator on corrupted input counts as detected (the per-block CRC mechanism is a panic); such outcomes are listed separately as panic@... classes",
	}
	return run, res
}

// c14CheckClean checks one produced file against everything that does not
// depend on the read segmentation. Returns "" or a violation text.
func c14CheckClean(fs vfs.IFS, fp string, cfg c14Cfg, payload []byte, f c14File) (clause, msg string) {
	if uint64(len(f.bytes)) != f.recSize {
		return "recorded-size", fmt.Sprintf("recorded FileSize %d, file has %d bytes", f.recSize, len(f.bytes))
	}
	st, err := fs.Stat(fp)
	if err != nil || st.Size() != int64(len(f.bytes)) {
		return "recorded-size", "stat size differs from bytes read"
	}
	var disk []byte
	if cfg.V == 2 {
		d, sum, bad := c14ParseV2(f.bytes)
		if bad != "" {
			return "layout", "v2 file malformed per the reference layout: " + bad
		}
		disk = d
		if !bytes.Equal(sum, f.recSum) {
			return "recorded-checksum", fmt.Sprintf("recorded checksum %x, checksum of the block checksums in the file %x", f.recSum, sum)
		}
		got, err := GetV2PayloadChecksum(fp, fs)
		if err != nil {
			if !(len(disk) == 0 && strings.Contains(err.Error(), "invalid file size")) {
				return "import-checksum", "GetV2PayloadChecksum failed: " + err.Error()
			}
		} else if !bytes.Equal(got, f.recSum) {
			return "import-checksum", fmt.Sprintf("GetV2PayloadChecksum %x, recorded %x", got, f.recSum)
		}
	} else {
		disk = f.bytes[c14Hdr:]
		if !bytes.Equal(c14CRC(disk), f.recSum) {
			return "recorded-checksum", fmt.Sprintf("recorded checksum %x, crc of the v1 payload %x", f.recSum, c14CRC(disk))
		}
	}
	if len(disk) != f.diskData {
		return "layout", fmt.Sprintf("%d bytes handed to the writer, %d in the file", f.diskData, len(disk))
	}
	plain, err := c14Decompress(cfg.CT, disk)
	if err != nil || !bytes.Equal(plain, payload) {
		return "layout", "on-disk data does not decode to the payload"
	}
	return "", ""
}

func TestVerifC14Roundtrip(t *testing.T) {
	run, res := c14Setup(t)
	defer run.Finish(res)
	res.Rule = "roundtrip: every (format version, compression, payload kind/length around block multiples - for snappy also lengths whose COMPRESSED size hits them) x every distinct write cut sequence x every distinct read-buffer sequence from cyclic patterns of <=3 sizes of the boundary set; one evaluation = one file read back (or one per-file oracle: size, checksums, validator, shrink, streaming path); distinct_nontrivial = distinct (cfg, write cuts, read buffers) with payload>0 and >=2 segments on one side"
	fs := vfs.NewMemFS()
	if err := fs.MkdirAll("/c14", 0755); err != nil {
		t.Fatal(err)
	}
	cfgs := c14Cfgs(run)
	pats := c14Patterns(run)
	if run.Replay != "" {
		var rp c14Replay
		run.LoadReplay(&rp)
		var rb [][]int
		if len(rp.RBufs) > 0 {
			rb = append(rb, rp.RBufs)
		}
		c14RoundtripCase(fs, res, rp.Cfg, rp.WCuts, rb, true)
		return
	}
	res.Extra["configs"] = fmt.Sprint(len(cfgs))
	res.Extra["patterns"] = fmt.Sprint(len(pats))
	k := uint64(0)
	for _, cfg := range cfgs {
		cpats := pats
		if cfg.Len > 5*c14B {
			// big compressible payloads: the block layer sees the small
			// compressed stream; a stated subset of the segmentations
			// (every len/24-th pattern, then 12 distinct cut sequences)
			cpats = c14ThinPats(pats, 24)
			res.Outcome("subset:big-payload-segmentations-thinned")
		}
		wcuts := c14DistinctCuts(cpats, cfg.Len, 0)
		if cfg.Len == 0 {
			wcuts = [][]int{{}, {0}} // no Write at all; one empty Write
		}
		rbufs := c14DistinctCuts(cpats, cfg.Len, 1)
		if cfg.Len > 5*c14B {
			wcuts = c14Thin(wcuts, 12)
			rbufs = c14Thin(rbufs, 12)
		}
		for _, wc := range wcuts {
			k++
			if !run.Mine(k) {
				continue
			}
			if run.Expired() {
				res.Cap("deadline")
				return
			}
			if c14RoundtripCase(fs, res, cfg, wc, rbufs, false) {
				return
			}
		}
	}
}

func c14ThinPats(p [][]int, n int) [][]int { return c14Thin(p, n) }

func c14Thin(c [][]int, n int) [][]int {
	if len(c) <= n {
		return c
	}
	var out [][]int
	for i := 0; i < n; i++ {
		out = append(out, c[i*len(c)/n])
	}
	return out
}

// c14RoundtripCase: one produced file, all per-file oracles, all read
// segmentations. Returns true when enough violations were collected.
func c14RoundtripCase(fs vfs.IFS, res *verifkit.Result, cfg c14Cfg, wc []int, rbufs [][]int, replay bool) bool {
	payload := c14Payload(cfg.Kind, cfg.Len)
	fp := "/c14/snapshot-0000000000000064.gbsnap"
	viol := func(clause, msg string, rb []int) bool {
		return res.Violate(fmt.Sprintf("C14:roundtrip:%s:v%d", clause, cfg.V),
			fmt.Sprintf("%s write cuts %v read bufs %v: %s", cfg, c14Short(wc), c14Short(rb), msg),
			c14Replay{Part: "roundtrip", Cfg: cfg, WCuts: wc, RBufs: rb})
	}
	var f c14File
	var perr error
	pmsg := verifkit.Catch(func() { f, perr = c14Produce(fs, fp, cfg, payload, wc) })
	res.Evaluations++
	if pmsg != "" || perr != nil {
		return viol("write-failed", fmt.Sprintf("writing failed: panic=%q err=%v", pmsg, perr), nil)
	}
	if clause, msg := c14CheckClean(fs, fp, cfg, payload, f); clause != "" {
		if viol(clause, msg, nil) {
			return true
		}
	}
	res.Evaluations++
	// the chunk stream of the file (file based transfer: fixed chunk size) is accepted
	for _, cs := range []int{c14B, c14Hdr, c14B + 4, 3000, len(f.bytes)} {
		res.Evaluations++
		if ok, how := c14Validate(c14Split(f.bytes, cs)); !ok {
			if viol("validator-rejects-clean-file-stream", fmt.Sprintf("chunk size %d: %s", cs, how), nil) {
				return true
			}
		}
	}
	res.Outcome("clean-file-stream:accepted")
	// streaming path (always v2): same write cuts through the ChunkWriter
	if cfg.V == 2 {
		res.Evaluations++
		chunks, meta, changed, err := c14StreamChunks(cfg, payload, wc)
		if err != nil {
			if viol("stream-write-failed", err.Error(), nil) {
				return true
			}
		} else {
			if changed != "" {
				// everything below judges the queued (post-Close) bytes as well
				if viol("chunkwriter-chunk-changed-after-receive", changed, nil) {
					return true
				}
			}
			if len(chunks) >= 4 {
				res.Outcome(fmt.Sprintf("chunkwriter-queued-stream:%d-data-chunks", len(chunks)-2))
			}
			if ok, how := c14Validate(chunks); !ok {
				if viol("validator-rejects-clean-chunkwriter-stream", how, nil) {
					return true
				}
			}
			last := meta[len(meta)-1]
			if last.ChunkCount != pb.LastChunkCount || len(last.Data) != 0 {
				if viol("stream-tail", "the last streamed chunk is not the empty LastChunkCount marker", nil) {
					return true
				}
			}
			for i, m := range meta {
				if m.ChunkId != uint64(i) || m.ChunkSize != uint64(len(m.Data)) && i != len(meta)-1 {
					if viol("stream-chunk-meta", fmt.Sprintf("chunk %d has id %d size field %d data %d", i, m.ChunkId, m.ChunkSize, len(m.Data)), nil) {
						return true
					}
				}
			}
			// what the receiver stores is a loadable snapshot file with the same payload
			sfp := "/c14/streamed.gbsnap"
			c14WriteFile(fs, sfp, bytes.Join(chunks, nil))
			ld := c14LoadFile(fs, sfp, c14PlainRead, len(payload)+1<<20)
			if ld.fail != "" || !bytes.Equal(ld.data, payload) {
				if viol("streamed-file-readback", fmt.Sprintf("fail=%q got %d bytes want %d", ld.fail, len(ld.data), len(payload)), nil) {
					return true
				}
			}
			res.Outcome("clean-chunkwriter-stream:accepted+loadable")
		}
		// shrink (on disk state machine snapshots are v2)
		res.Evaluations++
		if msg := c14CheckShrink(fs, fp, cfg); msg != "" {
			if viol("shrink", msg, nil) {
				return true
			}
		}
		// restore the file, shrink replaced it
		c14WriteFile(fs, fp, f.bytes)
	}
	for _, rb := range rbufs {
		res.Evaluations++
		ld := c14LoadFile(fs, fp, rb, len(payload)+1<<20)
		cls := "readback:identical"
		switch {
		case ld.fail != "":
			cls = "readback:FAILED"
			if viol("readback-failed", "reading an intact file failed: "+ld.fail, rb) {
				return true
			}
		case !bytes.Equal(ld.data, payload):
			cls = "readback:DIFFERENT"
			if viol("readback-different", fmt.Sprintf("read %d bytes, wrote %d, first difference at %d", len(ld.data), len(payload), c14FirstDiff(ld.data, payload)), rb) {
				return true
			}
		case int(ld.hdr.Version) != cfg.V || ld.hdr.CompressionType != cfg.ct() || !bytes.Equal(ld.hdr.PayloadChecksum, f.recSum):
			cls = "readback:HEADER-MISMATCH"
			if viol("header-fields", fmt.Sprintf("header read back %+v", ld.hdr), rb) {
				return true
			}
		}
		res.Outcome(fmt.Sprintf("v%d:ct%d:%s", cfg.V, cfg.CT, cls))
		if cfg.Len > 0 && (len(wc) >= 2 || c14Needed(rb, cfg.Len) >= 2) {
			res.DistinctNontrivial++
		}
		if !replay && len(res.Samples) < 3 && len(wc) >= 2 && c14Needed(rb, cfg.Len) >= 2 && cfg.Len > c14B {
			res.Sample(3, fmt.Sprintf("%s write cuts %s read bufs %s", cfg, c14Short(wc), c14Short(rb)))
		}
	}
	return false
}

func c14Needed(rb []int, n int) int {
	c := 0
	for _, b := range rb {
		c++
		n -= b
		if n < 0 {
			break
		}
	}
	return c
}

func c14Short(c []int) string {
	if len(c) <= 8 {
		return fmt.Sprint(c)
	}
	return fmt.Sprintf("%v...(%d segments)", c[:8], len(c))
}

func c14FirstDiff(a, b []byte) int {
	for i := 0; i < len(a) && i < len(b); i++ {
		if a[i] != b[i] {
			return i
		}
	}
	if len(a) < len(b) {
		return len(a)
	}
	return len(b)
}

// c14CheckShrink: ShrinkSnapshot + ReplaceSnapshot leave a loadable
// empty-payload snapshot that IsShrunkSnapshotFile recognises.
func c14CheckShrink(fs vfs.IFS, fp string, cfg c14Cfg) (out string) {
	shrunk := "/c14/snapshot-0000000000000064.shrunk"
	msg := verifkit.Catch(func() {
		if cfg.Kind == "rnd" && cfg.CT == 0 && cfg.Len >= 17 || cfg.CT == 1 && cfg.Len > 0 {
			// a full snapshot (session header followed by data) is not "shrunk"
			is, err := IsShrunkSnapshotFile(fp, fs)
			if err != nil || is {
				out = fmt.Sprintf("IsShrunkSnapshotFile(full snapshot) = %v, %v", is, err)
				return
			}
		}
		if err := ShrinkSnapshot(fp, shrunk, fs); err != nil {
			out = "ShrinkSnapshot: " + err.Error()
			return
		}
		for _, p := range []string{shrunk, fp} {
			if p == fp {
				if err := ReplaceSnapshot(shrunk, fp, fs); err != nil {
					out = "ReplaceSnapshot: " + err.Error()
					return
				}
				if _, err := fs.Stat(shrunk); err == nil {
					out = "shrunk temp file still there after ReplaceSnapshot"
					return
				}
			}
			is, err := IsShrunkSnapshotFile(p, fs)
			if err != nil || !is {
				out = fmt.Sprintf("IsShrunkSnapshotFile(%s) = %v, %v", p, is, err)
				return
			}
			ld := c14LoadFile(fs, p, c14PlainRead, 1<<20)
			if ld.fail != "" || !bytes.Equal(ld.data, GetEmptyLRUSession()) {
				out = fmt.Sprintf("shrunk file %s does not load as the empty-session payload: fail=%q %d bytes", p, ld.fail, len(ld.data))
				return
			}
			if ld.hdr.CompressionType != pb.NoCompression || ld.hdr.Version != uint64(V2) {
				out = fmt.Sprintf("shrunk file header %+v", ld.hdr)
				return
			}
			if ok, how := c14Validate(c14Split(c14ReadAll(fs, p), c14B)); !ok {
				out = "validator rejects the shrunk file: " + how
				return
			}
		}
	})
	if msg != "" {
		return "panic: " + msg
	}
	return out
}

// ---------------------------------------------------------------- part 2: every bit flip of every file

func c14CanonCuts(n int) []int {
	if n == 0 {
		return nil
	}
	return []int{n}
}

func c14FlipCfgs(run *verifkit.Run) []c14Cfg {
	var out []c14Cfg
	for _, c := range c14Cfgs(run) {
		if c.Kind == "pat" && c.Len > 70000 && !run.Thorough() {
			continue
		}
		out = append(out, c)
	}
	return out
}

// c14Original returns the file for cfg; when hdr is given (replay) the 1 KiB
// header is replaced by the recorded one so that the timestamp matches.
func c14Original(fs vfs.IFS, cfg c14Cfg, hdr string) ([]byte, []byte, error) {
	payload := c14Payload(cfg.Kind, cfg.Len)
	f, err := c14Produce(fs, "/c14/orig.gbsnap", cfg, payload, c14CanonCuts(cfg.Len))
	if err != nil {
		return nil, nil, err
	}
	if hdr != "" {
		h, err := hex.DecodeString(hdr)
		if err != nil || len(h) != c14Hdr {
			return nil, nil, fmt.Errorf("bad header in replay")
		}
		copy(f.bytes, h)
	}
	return f.bytes, payload, nil
}

// c14JudgeLoad classifies the load of a modified file: "detected:<how>",
// "harmless" (exactly the original bytes) or "ALTERED".
func c14JudgeLoad(fs vfs.IFS, fp string, payload []byte) (string, string) {
	ld := c14LoadFile(fs, fp, c14PlainRead, len(payload)*4+1<<20)
	if ld.fail != "" {
		return "detected", ld.fail
	}
	if bytes.Equal(ld.data, payload) {
		return "harmless", ""
	}
	return "ALTERED", fmt.Sprintf("load succeeded and returned %d bytes (original %d), first difference at offset %d",
		len(ld.data), len(payload), c14FirstDiff(ld.data, payload))
}

func TestVerifC14FileFlip(t *testing.T) {
	run, res := c14Setup(t)
	defer run.Finish(res)
	res.Rule = "fileflip: for every (version, compression, payload) file written by the real writer, EVERY single-bit flip of the whole file (header, padding, blocks, block CRCs, tail) is loaded through the real reader+decompressor; evaluation = one flipped file loaded; distinct_nontrivial = distinct (cfg, bit) (all non-trivial: every one is a corrupted file)"
	fs := vfs.NewMemFS()
	if err := fs.MkdirAll("/c14", 0755); err != nil {
		t.Fatal(err)
	}
	if run.Replay != "" {
		var rp c14Replay
		run.LoadReplay(&rp)
		orig, payload, err := c14Original(fs, rp.Cfg, rp.Header)
		if err != nil {
			t.Fatal(err)
		}
		c14FlipOne(fs, res, rp.Cfg, orig, payload, c14Regions(orig, rp.Cfg.V), rp.A)
		return
	}
	const slab = 4096 // bits per work item
	k := uint64(0)
	var bits int64
	for _, cfg := range c14FlipCfgs(run) {
		orig, payload, err := c14Original(fs, cfg, "")
		if err != nil {
			res.Violate("C14:fileflip:write-failed", cfg.String()+": "+err.Error(), c14Replay{Part: "fileflip", Cfg: cfg})
			continue
		}
		regs := c14Regions(orig, cfg.V)
		nbits := len(orig) * 8
		for lo := 0; lo < nbits; lo += slab {
			k++
			if !run.Mine(k) {
				continue
			}
			if run.Expired() {
				res.Cap("deadline")
				res.Extra["bits_flipped"] = bits
				return
			}
			for b := lo; b < lo+slab && b < nbits; b++ {
				bits++
				if c14FlipOne(fs, res, cfg, orig, payload, regs, b) {
					res.Extra["bits_flipped"] = bits
					return
				}
			}
		}
		if run.Mine(k) {
			res.Sample(3, fmt.Sprintf("%s: file of %d bytes, all %d single-bit flips", cfg, len(orig), nbits))
		}
	}
	res.Extra["bits_flipped"] = bits
}

func c14FlipOne(fs vfs.IFS, res *verifkit.Result, cfg c14Cfg, orig, payload []byte, regs []c14Region, bit int) bool {
	mod := append([]byte(nil), orig...)
	mod[bit/8] ^= 1 << uint(bit%8)
	fp := "/c14/flipped.gbsnap"
	c14WriteFile(fs, fp, mod)
	res.Evaluations++
	res.DistinctNontrivial++
	verdict, how := c14JudgeLoad(fs, fp, payload)
	region := c14RegionOf(regs, bit/8)
	switch verdict {
	case "detected":
		res.Outcome(fmt.Sprintf("v%d:%s:detected:%s", cfg.V, region, how))
	case "harmless":
		res.Outcome(fmt.Sprintf("v%d:%s:harmless(original bytes returned)", cfg.V, region))
	default:
		res.Outcome(fmt.Sprintf("v%d:%s:ALTERED", cfg.V, region))
		return res.Violate("C14:fileflip:altered-data-loaded:"+c14Field(region),
			fmt.Sprintf("%s: flipping bit %d of byte %d (%s) of the %d byte snapshot file: %s - altered data reaches the state machine without any error",
				cfg, bit%8, bit/8, region, len(orig), how),
			c14Replay{Part: "fileflip", Cfg: cfg, Op: "flip", A: bit, Header: hex.EncodeToString(orig[:c14Hdr])})
	}
	return false
}

// ---------------------------------------------------------------- part 3: corrupted / cut chunk streams through the validator

type c14Stream struct {
	kind   string // file | chunkwriter
	bytes  []byte
	sizes  []int // chunk sizes of the unmodified stream
	regs   []c14Region
}

func c14Streams(fs vfs.IFS, cfg c14Cfg, hdr string) ([]c14Stream, []byte, error) {
	orig, payload, err := c14Original(fs, cfg, hdr)
	if err != nil {
		return nil, nil, err
	}
	var out []c14Stream
	var sizes []int
	for _, c := range c14Split(orig, c14B) {
		sizes = append(sizes, len(c))
	}
	out = append(out, c14Stream{kind: "file", bytes: orig, sizes: sizes, regs: c14Regions(orig, cfg.V)})
	if cfg.V == 2 {
		chunks, _, changed, err := c14StreamChunks(cfg, payload, c14CanonCuts(cfg.Len))
		if err != nil {
			return nil, nil, err
		}
		if changed != "" {
			return nil, nil, fmt.Errorf("chunkwriter stream: %s", changed)
		}
		all := bytes.Join(chunks, nil)
		sizes = nil
		for _, c := range chunks {
			sizes = append(sizes, len(c))
		}
		out = append(out, c14Stream{kind: "chunkwriter", bytes: all, sizes: sizes, regs: c14Regions(all, 2)})
	}
	return out, payload, nil
}

// c14Mutate applies one modification to the stream bytes.
func c14Mutate(orig []byte, op string, a, b int) []byte {
	switch op {
	case "flip":
		m := append([]byte(nil), orig...)
		m[a/8] ^= 1 << uint(a%8)
		return m
	case "trunc": // keep the first a bytes
		return append([]byte(nil), orig[:a]...)
	case "del": // delete byte a
		m := append([]byte(nil), orig[:a]...)
		return append(m, orig[a+1:]...)
	case "dup": // byte a delivered twice
		m := append([]byte(nil), orig[:a+1]...)
		return append(m, orig[a:]...)
	case "excise": // remove [a,b)
		m := append([]byte(nil), orig[:a]...)
		return append(m, orig[b:]...)
	}
	panic("harness: unknown op")
}

func c14StreamCfgs(run *verifkit.Run) []c14Cfg { return c14FlipCfgs(run) }

func TestVerifC14Stream(t *testing.T) {
	run, res := c14Setup(t)
	defer run.Finish(res)
	res.Rule = "stream: for every file and every ChunkWriter stream (chunked like the sender does) through the real SnapshotValidator in the receiver's call order: the unmodified stream (accepted), EVERY single-bit flip, EVERY truncation point, every single-byte deletion / duplication, every excision between two layout boundaries; evaluation = one modified stream validated; distinct_nontrivial = distinct (cfg, stream kind, modification)"
	fs := vfs.NewMemFS()
	if err := fs.MkdirAll("/c14", 0755); err != nil {
		t.Fatal(err)
	}
	if run.Replay != "" {
		var rp c14Replay
		run.LoadReplay(&rp)
		streams, payload, err := c14Streams(fs, rp.Cfg, "")
		if err != nil {
			res.Violate("C14:stream:write-failed", rp.Cfg.String()+": "+err.Error(), rp)
			return
		}
		for _, s := range streams {
			if s.kind != rp.Kind {
				continue
			}
			if h, err := hex.DecodeString(rp.Header); err == nil && len(h) == c14Hdr {
				copy(s.bytes, h)
			}
			c14StreamOne(fs, res, rp.Cfg, s, payload, rp.Op, rp.A, rp.Bv)
		}
		return
	}
	const slab = 2048
	k := uint64(0)
	for _, cfg := range c14StreamCfgs(run) {
		streams, payload, err := c14Streams(fs, cfg, "")
		if err != nil {
			res.Violate("C14:stream:write-failed", cfg.String()+": "+err.Error(), c14Replay{Part: "stream", Cfg: cfg})
			continue
		}
		for _, s := range streams {
			// the unmodified stream must be accepted
			k++
			if run.Mine(k) {
				res.Evaluations++
				if ok, how := c14Validate(c14SplitAt(s.bytes, s.sizes)); !ok {
					res.Violate("C14:stream:clean-rejected:"+s.kind, fmt.Sprintf("%s %s stream rejected unmodified: %s", cfg, s.kind, how),
						c14Replay{Part: "stream", Cfg: cfg, Kind: s.kind, Op: "none"})
				} else {
					res.Outcome(s.kind + ":unmodified:accepted")
				}
				res.Sample(3, fmt.Sprintf("%s %s stream: %d bytes in chunks %v: all %d bit flips, %d truncations, %d deletions, %d duplications, boundary excisions",
					cfg, s.kind, len(s.bytes), c14Short(s.sizes), len(s.bytes)*8, len(s.bytes), len(s.bytes), len(s.bytes)))
			}
			type job struct {
				op   string
				n    int
				each func(i int) (int, int)
			}
			// boundary set for excisions
			bset := map[int]bool{}
			for _, r := range s.regs {
				if strings.HasPrefix(r.name, "header.") && r.name != "header.padding" {
					continue
				}
				for _, d := range []int{-1, 0, 1} {
					if x := r.from + d; x >= 0 && x <= len(s.bytes) {
						bset[x] = true
					}
				}
			}
			off := 0
			for _, cs := range s.sizes {
				off += cs
				bset[off] = true
			}
			bset[len(s.bytes)] = true
			var bounds []int
			for x := range bset {
				bounds = append(bounds, x)
			}
			sort.Ints(bounds)
			var pairs [][2]int
			for i, a := range bounds {
				for _, b := range bounds[i+1:] {
					if b-a >= 2 { // single byte deletions are the "del" family
						pairs = append(pairs, [2]int{a, b})
					}
				}
			}
			jobs := []job{
				{"flip", len(s.bytes) * 8, func(i int) (int, int) { return i, 0 }},
				{"trunc", len(s.bytes), func(i int) (int, int) { return i, 0 }},
				{"del", len(s.bytes), func(i int) (int, int) { return i, 0 }},
				{"dup", len(s.bytes), func(i int) (int, int) { return i, 0 }},
				{"excise", len(pairs), func(i int) (int, int) { return pairs[i][0], pairs[i][1] }},
			}
			for _, j := range jobs {
				for lo := 0; lo < j.n; lo += slab {
					k++
					if !run.Mine(k) {
						continue
					}
					if run.Expired() {
						res.Cap("deadline")
						return
					}
					for i := lo; i < lo+slab && i < j.n; i++ {
						a, b := j.each(i)
						if c14StreamOne(fs, res, cfg, s, payload, j.op, a, b) {
							return
						}
					}
				}
			}
		}
	}
}

// c14EscapeActive mirrors the documented "all-zero header crc" escape (DESIGN
// F6): validateHeader skips the header checksum when the 4 bytes following the
// header record are 0000. Files written by SnapshotWriter always leave that
// slot zero (only ChunkWriter streams fill it), and a flipped length field can
// move the slot into the zero padding.
func c14EscapeActive(stream []byte) bool {
	if len(stream) < c14Hdr {
		return false
	}
	sz := binary.LittleEndian.Uint64(stream[:8])
	if sz > uint64(c14Hdr)-12 {
		return false
	}
	return bytes.Equal(stream[8+sz:12+sz], []byte{0, 0, 0, 0})
}

// c14Unprotected: regions no mechanism of the format covers, so a bit flip
// there is only a violation when it alters what is loaded (see NOTES.md, F6).
func c14Unprotected(mod []byte, region string) bool {
	if region == "header.padding" {
		return true
	}
	return strings.HasPrefix(region, "header.") && c14EscapeActive(mod)
}

// c14Field drops the .tag/.len/.value suffix of a header field region.
func c14Field(region string) string {
	for _, suf := range []string{".tag", ".len", ".value"} {
		if strings.HasPrefix(region, "header.") && strings.HasSuffix(region, suf) && region != "header.len" {
			return strings.TrimSuffix(region, suf)
		}
	}
	return region
}

func c14StreamOne(fs vfs.IFS, res *verifkit.Result, cfg c14Cfg, s c14Stream, payload []byte, op string, a, b int) bool {
	mod := c14Mutate(s.bytes, op, a, b)
	res.Evaluations++
	if bytes.Equal(mod, s.bytes) {
		res.Outcome(s.kind + ":" + op + ":identity(skipped)")
		return false
	}
	res.DistinctNontrivial++
	accepted, how := c14Validate(c14SplitAt(mod, s.sizes))
	pos := a
	if op == "flip" {
		pos = a / 8
	}
	region := c14RegionOf(s.regs, pos)
	if op == "excise" {
		region = region + ".." + c14RegionOf(s.regs, b-1)
	}
	if strings.HasPrefix(region, "header.") && op != "flip" {
		region = "header" // shifting modifications inside the header: one class
	}
	if !accepted {
		res.Outcome(fmt.Sprintf("%s:v%d:%s:%s:rejected:%s", s.kind, cfg.V, op, c14Coarse(region), how))
		return false
	}
	// accepted although modified: what would the receiver load from it?
	fp := "/c14/received.gbsnap"
	c14WriteFile(fs, fp, mod)
	verdict, lhow := c14JudgeLoad(fs, fp, payload)
	rp := c14Replay{Part: "stream", Cfg: cfg, Kind: s.kind, Op: op, A: a, Bv: b, Header: hex.EncodeToString(s.bytes[:c14Hdr])}
	desc := fmt.Sprintf("%s %s stream (%d bytes, chunks %v), %s(%d,%d) in %s: validator ACCEPTED the modified stream; loading the received file: %s %s",
		cfg, s.kind, len(s.bytes), c14Short(s.sizes), op, a, b, region, verdict, lhow)
	if verdict == "ALTERED" {
		res.Outcome(fmt.Sprintf("%s:v%d:%s:%s:ACCEPTED-AND-ALTERED", s.kind, cfg.V, op, region))
		return res.Violate("C14:stream:accepted-altered:"+s.kind+":"+c14Field(region), desc, rp)
	}
	if op == "flip" && c14Unprotected(mod, region) {
		res.Outcome(fmt.Sprintf("%s:v%d:%s:%s:accepted-unprotected-region(%s)", s.kind, cfg.V, op, region, verdict))
		return false
	}
	res.Outcome(fmt.Sprintf("%s:v%d:%s:%s:ACCEPTED(%s)", s.kind, cfg.V, op, region, verdict))
	return res.Violate("C14:stream:accepted-corrupt:"+s.kind+":"+op+":"+c14Coarse(region), desc, rp)
}

// c14Coarse keeps outcome class / key cardinality bounded.
func c14Coarse(region string) string {
	if i := strings.Index(region, ".."); i >= 0 {
		return c14Coarse(region[:i]) + ".." + c14Coarse(region[i+2:])
	}
	if strings.HasPrefix(region, "header.") && region != "header.padding" && region != "header.len" && region != "header.crcslot" {
		return "header.data"
	}
	return region
}
