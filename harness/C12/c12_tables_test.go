//go:build verif

// C12 part "tables": every accepted request gets exactly one truthful terminal
// result. White-box, single-threaded exhaustive enumeration of ALL operation
// sequences up to a depth on the REAL pendingProposal (1 shard),
// pendingReadIndex, pendingConfigChange, pendingSnapshot and
// pendingRaftLogQuery tables (request.go, queue.go), each table its own
// sub-search, compared after every step with a reference model that is taken
// from the property statement only.
package dragonboat

import (
	"bytes"
	"fmt"
	"regexp"
	"runtime"
	"runtime/debug"
	"strings"
	"sync"
	"testing"

	"github.com/lni/dragonboat/v4/client"
	"github.com/lni/dragonboat/v4/config"
	"github.com/lni/dragonboat/v4/internal/rsm"
	"github.com/lni/dragonboat/v4/internal/verifkit"
	"github.com/lni/dragonboat/v4/logger"
	pb "github.com/lni/dragonboat/v4/raftpb"
	sm "github.com/lni/dragonboat/v4/statemachine"
)

// ---------------------------------------------------------------------------
// quiet logger: plog.Panicf must still panic, nothing is printed

type c12QuietLogger struct{}

func (c12QuietLogger) SetLevel(logger.LogLevel)        {}
func (c12QuietLogger) Debugf(string, ...interface{})   {}
func (c12QuietLogger) Infof(string, ...interface{})    {}
func (c12QuietLogger) Warningf(string, ...interface{}) {}
func (c12QuietLogger) Errorf(string, ...interface{})   {}
func (c12QuietLogger) Panicf(f string, a ...interface{}) {
	panic(fmt.Sprintf(f, a...))
}

// ---------------------------------------------------------------------------
// reference model shared by all tables

type c12Viol struct {
	key  string
	desc string
}

func c12v(key, f string, a ...interface{}) *c12Viol {
	return &c12Viol{key: key, desc: fmt.Sprintf(f, a...)}
}

const (
	c12EngFresh = iota
	c12EngCommitted
	c12EngAborted // snapshot only: apply(aborted) called, apply(ignored) may follow
	c12EngDone
)

const (
	c12InQueue  = -1
	c12InFlight = -2
	c12NoBatch  = -3
)

// c12Req is the model of one ACCEPTED request (the call returned no error).
type c12Req struct {
	id         int
	rs         *RequestState
	deadline   uint64
	hasDL      bool
	afterClose bool
	// what the engine side knows / did for this request
	keyKnown        bool
	key             uint64
	clientID        uint64
	seriesID        uint64
	eng             int
	committedCalled bool
	appliedCalled   bool
	appliedRejected bool
	appliedVal      uint64
	droppedCalled   bool
	abortedCalled   bool
	ignoredCalled   bool
	// reads
	batch     int
	batchedAt uint64
	// what the client observed
	nCommitted int
	terminal   bool
	tcode      RequestResultCode
	held       bool // the client still owns the RequestState object
}

type c12Base struct {
	name         string
	now          uint64
	closed       bool
	notifyCommit bool
	pooled       bool
	reqs         []*c12Req
	gcInterval   uint64
	// statistics, only recorded for the last step of a path (count != nil)
	count     func(string)
	delivered int
	truth     func(r *c12Req, v RequestResult) *c12Viol
}

func (b *c12Base) outcome(s string) {
	if b.count != nil {
		b.count(b.name + ":" + s)
	}
}

func (b *c12Base) tsel(arg uint32) uint64 {
	if arg == 0 {
		return 1
	}
	return 3
}

// accept registers a request the table accepted.
func (b *c12Base) accept(rs *RequestState, timeout uint64, hasDL bool) (*c12Req, *c12Viol) {
	if rs == nil {
		return nil, c12v(b.name+"/nil-request-state", "request accepted (no error) but the RequestState is nil")
	}
	reused := false
	for _, o := range b.reqs {
		if o.rs == rs {
			if o.held {
				return nil, c12v(b.name+"/pool-alias",
					"new request #%d was given the RequestState object still owned by request #%d (terminal=%v): the object was returned to the pool before its owner was notified, results will be delivered to the wrong owner",
					len(b.reqs), o.id, o.terminal)
			}
			reused = true
		}
	}
	if b.pooled {
		if reused {
			b.outcome("pool:object-reused")
		} else {
			b.outcome("pool:fresh-object")
		}
	}
	r := &c12Req{id: len(b.reqs), rs: rs, deadline: b.now + timeout, hasDL: hasDL, held: true,
		afterClose: b.closed, batch: c12NoBatch}
	b.reqs = append(b.reqs, r)
	b.outcome("accepted")
	return r, nil
}

// observe polls, without blocking, the channels of every RequestState object.
func (b *c12Base) observe() *c12Viol {
	for _, r := range b.reqs {
		if !r.held {
			// released by its owner: unless somebody else owns the object now, it
			// sits in the pool and nothing may be delivered to it.
			owned := false
			for _, o := range b.reqs {
				if o.rs == r.rs && o.held {
					owned = true
				}
			}
			if !owned && (len(r.rs.CompletedC) > 0 || len(r.rs.committedC) > 0) {
				return c12v(b.name+"/delivery-to-released-object",
					"a result was delivered to the RequestState of request #%d after it was released to the pool (its next owner would inherit it)", r.id)
			}
			continue
		}
		for k := 0; k < 3; k++ {
			got := false
			if r.rs.committedC != nil {
				select {
				case v := <-r.rs.committedC:
					got = true
					if vi := b.judgeCommitted(r, v); vi != nil {
						return vi
					}
				default:
				}
			}
			select {
			case v := <-r.rs.CompletedC:
				got = true
				if vi := b.judgeTerminal(r, v); vi != nil {
					return vi
				}
			default:
			}
			if !got {
				break
			}
		}
	}
	return nil
}

func (b *c12Base) judgeCommitted(r *c12Req, v RequestResult) *c12Viol {
	if v.code != requestCommitted {
		return c12v(b.name+"/non-committed-on-committedC", "request #%d: %s delivered on the commit notification channel", r.id, v.code)
	}
	if !b.notifyCommit {
		return c12v(b.name+"/committed-without-notifycommit", "request #%d: Committed notification although notifyCommit is off", r.id)
	}
	if r.terminal {
		return c12v(b.name+"/committed-after-terminal", "request #%d: Committed notification after its terminal result %s", r.id, r.tcode)
	}
	if r.nCommitted > 0 {
		return c12v(b.name+"/two-committed", "request #%d: second Committed notification", r.id)
	}
	if !r.committedCalled {
		return c12v(b.name+"/committed-not-truthful", "request #%d: Committed notification but committed(key) was never called for its key (belongs to another request)", r.id)
	}
	r.nCommitted++
	b.outcome("result:Committed")
	return nil
}

func (b *c12Base) judgeTerminal(r *c12Req, v RequestResult) *c12Viol {
	if r.terminal {
		return c12v(b.name+"/two-terminal-results", "request #%d: second terminal result %s after %s", r.id, v.code, r.tcode)
	}
	r.terminal = true
	r.tcode = v.code
	b.delivered++
	b.outcome("result:" + v.code.String())
	switch v.code {
	case requestTimeout:
		if !r.hasDL {
			return c12v(b.name+"/timeout-without-deadline", "request #%d: Timeout but the request has no deadline", r.id)
		}
		if b.now < r.deadline {
			return c12v(b.name+"/timeout-before-deadline", "request #%d: Timeout at tick %d before its deadline %d", r.id, b.now, r.deadline)
		}
		return nil
	case requestTerminated:
		if !b.closed {
			return c12v(b.name+"/terminated-without-close", "request #%d: Terminated but close() was not called", r.id)
		}
		return nil
	case requestCommitted:
		return c12v(b.name+"/committed-on-result-channel", "request #%d: Committed delivered as terminal result", r.id)
	}
	return b.truth(r, v)
}

// belongsTo helps describing cross talk.
func (b *c12Base) belongsTo(r *c12Req, val uint64) string {
	for _, o := range b.reqs {
		if o != r && o.appliedCalled && o.appliedVal == val {
			return fmt.Sprintf(" (that value was passed to applied for request #%d)", o.id)
		}
	}
	return ""
}

func (b *c12Base) release(arg uint32) {
	r := b.reqs[arg]
	r.rs.Release()
	if r.terminal {
		r.held = false
		b.outcome("release:after-result")
	} else {
		// Release before the result was delivered must be a no-op: the owner keeps
		// the object and is still owed its result.
		b.outcome("release:premature-noop")
	}
}

func (b *c12Base) releaseOps(kind uint32, onlyTerminal bool) []uint32 {
	var out []uint32
	for _, r := range b.reqs {
		if r.held && (r.terminal || !onlyTerminal) {
			out = append(out, c12op(kind, uint32(r.id)))
		}
	}
	return out
}

// afterClose: once close() returned every accepted request has its result.
func (b *c12Base) afterClose() *c12Viol {
	if !b.closed {
		return nil
	}
	for _, r := range b.reqs {
		if !r.terminal && r.batch != c12InFlight {
			if r.afterClose {
				return c12v(b.name+"/accepted-after-close",
					"request #%d was accepted (no error) after close() and nothing will ever terminate it: zero results", r.id)
			}
			return c12v(b.name+"/zero-results-after-close",
				"request #%d was accepted before close() and has no terminal result after close() returned", r.id)
		}
	}
	return nil
}

// afterGC: the table's expiry scan was invoked at b.now.
func (b *c12Base) afterGC() *c12Viol {
	if b.closed {
		return nil
	}
	for _, r := range b.reqs {
		if r.terminal || !r.hasDL {
			continue
		}
		if r.batch == c12InQueue || r.batch == c12InFlight {
			continue
		}
		from := r.deadline
		if r.batch >= 0 && r.batchedAt > from {
			from = r.batchedAt
		}
		if from+b.gcInterval <= b.now {
			return c12v(b.name+"/zero-results-after-deadline",
				"request #%d (deadline tick %d) has no result after the expiry scan ran at tick %d (gc interval %d)",
				r.id, r.deadline, b.now, b.gcInterval)
		}
	}
	return nil
}

func (b *c12Base) staleCall(r *c12Req) {
	if r.terminal {
		b.outcome("engine:call-for-terminated-request")
	}
}

// ---------------------------------------------------------------------------
// op encoding

func c12op(kind, arg uint32) uint32 { return kind<<8 | arg }

const (
	c12kRequest = iota + 1
	c12kCommitted
	c12kApplied
	c12kDropped
	c12kTick
	c12kGC
	c12kRelease
	c12kClose
	c12kTake
	c12kTakeGet
	c12kTakeAdd
	c12kReady
	c12kDroppedB
	c12kAppSame
	c12kAppAdv
	c12kIssue
	c12kReturned
)

type c12Table interface {
	base() *c12Base
	enabled() []uint32
	apply(op uint32) *c12Viol
	after(op uint32) *c12Viol
	describe(op uint32) string
}

func c12NewPool(notifyCommit bool) *sync.Pool {
	// same construction as NodeHost.createPools
	p := &sync.Pool{}
	p.New = func() interface{} {
		obj := &RequestState{}
		obj.CompletedC = make(chan RequestResult, 1)
		obj.pool = p
		if notifyCommit {
			obj.committedC = make(chan RequestResult, 1)
		}
		return obj
	}
	return p
}

// ---------------------------------------------------------------------------
// pendingProposal (1 shard)

type c12Prop struct {
	c12Base
	pp      pendingProposal
	q       *entryQueue
	queued  []int
	session *client.Session
	curTick uint64 // node.currentTick
	gcSeen  uint64 // node.gcTick
}

func c12NewProp(nc bool) c12Table {
	name := "proposal"
	if nc {
		name = "proposal-nc"
	}
	q := newEntryQueue(3, 0)
	t := &c12Prop{q: q, session: &client.Session{ShardID: 1, ClientID: 11, SeriesID: client.NoOPSeriesID}}
	t.c12Base = c12Base{name: name, notifyCommit: nc, pooled: true, gcInterval: defaultGCTick}
	t.truth = t.truthFn
	t.pp = newPendingProposal(config.Config{ShardID: 1, ReplicaID: 1}, nc, c12NewPool(nc), q)
	return t
}

func (t *c12Prop) base() *c12Base { return &t.c12Base }

func (t *c12Prop) enabled() []uint32 {
	out := []uint32{c12op(c12kRequest, 0), c12op(c12kRequest, 1)}
	for _, r := range t.reqs {
		if r.eng == c12EngFresh && t.notifyCommit {
			out = append(out, c12op(c12kCommitted, uint32(r.id)))
		}
		if r.eng == c12EngFresh || r.eng == c12EngCommitted {
			out = append(out, c12op(c12kApplied, uint32(r.id)*2), c12op(c12kApplied, uint32(r.id)*2+1))
		}
		if r.eng == c12EngFresh {
			out = append(out, c12op(c12kDropped, uint32(r.id)))
		}
	}
	out = append(out, c12op(c12kTick, 0))
	if t.curTick != t.gcSeen {
		out = append(out, c12op(c12kGC, 0))
	}
	out = append(out, t.releaseOps(c12kRelease, false)...)
	if !t.closed {
		out = append(out, c12op(c12kClose, 0))
	}
	return out
}

// take emulates node.handleProposals: the engine learns the keys from the queue.
func (t *c12Prop) take() *c12Viol {
	if len(t.queued) == 0 {
		return nil
	}
	ents := t.q.get(false)
	if len(ents) != len(t.queued) {
		return c12v(t.name+"/queue-content-mismatch", "entry queue returned %d entries, %d proposals were accepted since the last get", len(ents), len(t.queued))
	}
	for i, id := range t.queued {
		r := t.reqs[id]
		r.keyKnown, r.key, r.clientID, r.seriesID = true, ents[i].Key, ents[i].ClientID, ents[i].SeriesID
	}
	t.queued = t.queued[:0]
	return nil
}

func (t *c12Prop) apply(op uint32) *c12Viol {
	kind, arg := op>>8, op&0xff
	switch kind {
	case c12kRequest:
		timeout := t.tsel(arg)
		rs, err := t.pp.propose(t.session, []byte{byte(len(t.reqs) + 1)}, timeout)
		if err != nil {
			t.outcome("refused:" + err.Error())
			return nil
		}
		r, vi := t.accept(rs, timeout, true)
		if vi != nil {
			return vi
		}
		t.queued = append(t.queued, r.id)
	case c12kCommitted, c12kApplied, c12kDropped:
		id := arg
		if kind == c12kApplied {
			id = arg / 2
		}
		r := t.reqs[id]
		if !r.keyKnown {
			if vi := t.take(); vi != nil {
				return vi
			}
		}
		t.staleCall(r)
		switch kind {
		case c12kCommitted:
			r.eng, r.committedCalled = c12EngCommitted, true
			t.pp.committed(r.clientID, r.seriesID, r.key)
		case c12kApplied:
			r.eng, r.appliedCalled, r.appliedRejected, r.appliedVal = c12EngDone, true, arg%2 == 1, uint64(100+r.id)
			t.pp.applied(r.clientID, r.seriesID, r.key,
				sm.Result{Value: r.appliedVal, Data: []byte{byte(r.id), 0xC1}}, r.appliedRejected)
		case c12kDropped:
			r.eng, r.droppedCalled = c12EngDone, true
			t.pp.dropped(r.clientID, r.seriesID, r.key)
		}
	case c12kTick:
		t.now++
		t.curTick++
		t.pp.tick(t.now)
	case c12kGC:
		// node.gc(): tick gated
		t.pp.gc()
		t.gcSeen = t.curTick
	case c12kRelease:
		t.release(arg)
	case c12kClose:
		t.pp.close()
		t.closed = true
	}
	return nil
}

func (t *c12Prop) after(op uint32) *c12Viol {
	if op>>8 == c12kGC {
		return t.afterGC()
	}
	return nil
}

func (t *c12Prop) truthFn(r *c12Req, v RequestResult) *c12Viol {
	switch v.code {
	case requestCompleted:
		if !r.appliedCalled || r.appliedRejected {
			return c12v(t.name+"/completed-not-truthful", "request #%d: Completed(value=%d) but applied(key, result, rejected=false) was not called for its key%s",
				r.id, v.result.Value, t.belongsTo(r, v.result.Value))
		}
		if v.result.Value != r.appliedVal || !bytes.Equal(v.result.Data, []byte{byte(r.id), 0xC1}) {
			return c12v(t.name+"/completed-wrong-value", "request #%d: Completed carries value %d data %v, the state machine returned %d%s",
				r.id, v.result.Value, v.result.Data, r.appliedVal, t.belongsTo(r, v.result.Value))
		}
	case requestRejected:
		if !r.appliedCalled || !r.appliedRejected {
			return c12v(t.name+"/rejected-not-truthful", "request #%d: Rejected but applied(key, rejected=true) was not called for its key", r.id)
		}
	case requestDropped:
		if !r.droppedCalled {
			return c12v(t.name+"/dropped-not-truthful", "request #%d: Dropped but dropped(key) was not called for its key", r.id)
		}
	default:
		return c12v(t.name+"/unexpected-result-code", "request #%d: unexpected result code %s", r.id, v.code)
	}
	if t.now > r.deadline {
		return c12v(t.name+"/result-after-deadline", "request #%d: %s delivered at tick %d after its deadline %d (an expired request must report Timeout; deadline check at notification time)",
			r.id, v.code, t.now, r.deadline)
	}
	return nil
}

func (t *c12Prop) describe(op uint32) string {
	kind, arg := op>>8, op&0xff
	switch kind {
	case c12kRequest:
		return fmt.Sprintf("propose(timeout=%d)", t.tsel(arg))
	case c12kCommitted:
		return fmt.Sprintf("committed(key#%d)", arg)
	case c12kApplied:
		return fmt.Sprintf("applied(key#%d,result=%d,rejected=%v)", arg/2, 100+arg/2, arg%2 == 1)
	case c12kDropped:
		return fmt.Sprintf("dropped(key#%d)", arg)
	case c12kTick:
		return "tick"
	case c12kGC:
		return "gc"
	case c12kRelease:
		return fmt.Sprintf("release(#%d)", arg)
	case c12kClose:
		return "close"
	}
	return fmt.Sprint(op)
}

// ---------------------------------------------------------------------------
// pendingReadIndex

type c12Batch struct {
	ctx     pb.SystemCtx
	ids     []int
	ready   bool
	idx     uint64
	dropped bool
}

type c12Read struct {
	c12Base
	pri         pendingReadIndex
	q           *readIndexQueue
	queued      []int
	inflight    bool
	inflightIDs []int
	inflightRS  []*RequestState
	batches     []*c12Batch
	applied     uint64
}

func c12NewRead() c12Table {
	q := newReadIndexQueue(3)
	t := &c12Read{q: q, applied: 1}
	t.c12Base = c12Base{name: "read", pooled: true, gcInterval: defaultGCTick}
	t.truth = t.truthFn
	t.pri = newPendingReadIndex(c12NewPool(false), q)
	return t
}

func (t *c12Read) base() *c12Base { return &t.c12Base }

func (t *c12Read) enabled() []uint32 {
	out := []uint32{c12op(c12kRequest, 0), c12op(c12kRequest, 1)}
	if t.inflight {
		// the step worker is between incomingReadIndexes.get() and
		// pendingReadIndexes.add(): only other goroutines can run (clients, the
		// apply worker, NodeHost.stopNode -> node.close)
		out = append(out, c12op(c12kTakeAdd, 0), c12op(c12kAppAdv, 0))
		out = append(out, t.releaseOps(c12kRelease, false)...)
		if !t.closed {
			out = append(out, c12op(c12kClose, 0))
		}
		return out
	}
	if len(t.queued) > 0 {
		out = append(out, c12op(c12kTake, 0), c12op(c12kTakeGet, 0))
	}
	for i, b := range t.batches {
		if !b.ready && !b.dropped {
			out = append(out, c12op(c12kReady, uint32(i)*2), c12op(c12kReady, uint32(i)*2+1), c12op(c12kDroppedB, uint32(i)))
		}
	}
	out = append(out, c12op(c12kAppSame, 0), c12op(c12kAppAdv, 0), c12op(c12kTick, 0))
	out = append(out, t.releaseOps(c12kRelease, false)...)
	if !t.closed {
		out = append(out, c12op(c12kClose, 0))
	}
	return out
}

func (t *c12Read) get() ([]*RequestState, []int, *c12Viol) {
	reqs := t.q.get()
	ids := append([]int{}, t.queued...)
	t.queued = t.queued[:0]
	if len(reqs) != len(ids) {
		return nil, nil, c12v(t.name+"/queue-content-mismatch", "read index queue returned %d requests, %d were accepted since the last get", len(reqs), len(ids))
	}
	for i, id := range ids {
		if reqs[i] != t.reqs[id].rs {
			return nil, nil, c12v(t.name+"/queue-content-mismatch", "read index queue returned a different RequestState for request #%d", id)
		}
	}
	return reqs, ids, nil
}

func (t *c12Read) add(reqs []*RequestState, ids []int) *c12Viol {
	ctx := t.pri.nextCtx()
	t.pri.add(ctx, reqs)
	t.batches = append(t.batches, &c12Batch{ctx: ctx, ids: ids})
	for _, id := range ids {
		r := t.reqs[id]
		r.batch, r.batchedAt = len(t.batches)-1, t.now
	}
	return nil
}

// lostBatch: the F2 candidate. Evaluated after the channels were polled.
func (t *c12Read) lostBatch() *c12Viol {
	if !t.closed || len(t.batches) == 0 {
		return nil
	}
	for _, id := range t.batches[len(t.batches)-1].ids {
		if r := t.reqs[id]; !r.terminal {
			return c12v(t.name+"/F2-batch-taken-before-close-never-terminated",
				"request #%d was taken from the read index queue by the step worker (node.handleReadIndex: incomingReadIndexes.get) just before close(); pendingReadIndex.add then returned silently because the table is stopped, close() never saw the request: zero results", r.id)
		}
	}
	return nil
}

func (t *c12Read) apply(op uint32) *c12Viol {
	kind, arg := op>>8, op&0xff
	switch kind {
	case c12kRequest:
		timeout := t.tsel(arg)
		rs, err := t.pri.read(timeout)
		if err != nil {
			t.outcome("refused:" + err.Error())
			return nil
		}
		r, vi := t.accept(rs, timeout, true)
		if vi != nil {
			return vi
		}
		r.batch = c12InQueue
		t.queued = append(t.queued, r.id)
	case c12kTake:
		// node.handleReadIndex
		reqs, ids, vi := t.get()
		if vi != nil {
			return vi
		}
		return t.add(reqs, ids)
	case c12kTakeGet:
		reqs, ids, vi := t.get()
		if vi != nil {
			return vi
		}
		t.inflight, t.inflightRS, t.inflightIDs = true, reqs, ids
		for _, id := range ids {
			t.reqs[id].batch = c12InFlight
		}
	case c12kTakeAdd:
		t.inflight = false
		return t.add(t.inflightRS, t.inflightIDs)
	case c12kReady:
		// node.processReadyToRead
		b := t.batches[arg/2]
		b.ready, b.idx = true, t.applied+uint64(arg%2)
		for _, id := range b.ids {
			t.staleCall(t.reqs[id])
		}
		t.pri.addReady([]pb.ReadyToRead{{Index: b.idx, SystemCtx: b.ctx}})
		t.pri.applied(t.applied)
	case c12kDroppedB:
		b := t.batches[arg]
		b.dropped = true
		for _, id := range b.ids {
			t.staleCall(t.reqs[id])
		}
		t.pri.dropped(b.ctx)
	case c12kAppSame:
		t.pri.applied(t.applied)
	case c12kAppAdv:
		t.applied++
		t.pri.applied(t.applied)
	case c12kTick:
		t.now++
		t.pri.tick(t.now)
	case c12kRelease:
		t.release(arg)
	case c12kClose:
		t.pri.close()
		t.closed = true
		// close drains the queue and terminates what it finds there
		t.queued = t.queued[:0]
	}
	return nil
}

func (t *c12Read) after(op uint32) *c12Viol {
	switch op >> 8 {
	case c12kTake, c12kTakeAdd:
		return t.lostBatch()
	case c12kReady, c12kAppSame, c12kAppAdv:
		// pendingReadIndex.applied carries the expiry scan
		return t.afterGC()
	}
	return nil
}

func (t *c12Read) truthFn(r *c12Req, v RequestResult) *c12Viol {
	switch v.code {
	case requestCompleted:
		ok := false
		if r.batch >= 0 {
			b := t.batches[r.batch]
			ok = b.ready && b.idx <= t.applied
		}
		if !ok {
			return c12v(t.name+"/completed-not-truthful", "request #%d: Completed but its batch was not confirmed (addReady) with an index <= the applied index %d", r.id, t.applied)
		}
		if !r.rs.readyToRead.ready() {
			return c12v(t.name+"/completed-without-ready-flag", "request #%d: Completed but the RequestState is not marked ready for local read", r.id)
		}
		if t.now > r.deadline {
			return c12v(t.name+"/result-after-deadline", "request #%d: Completed delivered at tick %d after its deadline %d", r.id, t.now, r.deadline)
		}
	case requestDropped:
		if r.batch < 0 || !t.batches[r.batch].dropped {
			return c12v(t.name+"/dropped-not-truthful", "request #%d: Dropped but dropped(ctx) was not called for its batch", r.id)
		}
	default:
		return c12v(t.name+"/unexpected-result-code", "request #%d: unexpected result code %s", r.id, v.code)
	}
	return nil
}

func (t *c12Read) describe(op uint32) string {
	kind, arg := op>>8, op&0xff
	switch kind {
	case c12kRequest:
		return fmt.Sprintf("read(timeout=%d)", t.tsel(arg))
	case c12kTake:
		return "handleReadIndex{queue.get;nextCtx;add}"
	case c12kTakeGet:
		return "handleReadIndex.begin{queue.get}"
	case c12kTakeAdd:
		return "handleReadIndex.end{nextCtx;add}"
	case c12kReady:
		return fmt.Sprintf("processReadyToRead{addReady(batch#%d,index=applied+%d);applied(applied)}", arg/2, arg%2)
	case c12kDroppedB:
		return fmt.Sprintf("dropped(batch#%d)", arg)
	case c12kAppSame:
		return "applied(same index)"
	case c12kAppAdv:
		return "applied(index+1)"
	case c12kTick:
		return "tick"
	case c12kRelease:
		return fmt.Sprintf("release(#%d)", arg)
	case c12kClose:
		return "close"
	}
	return fmt.Sprint(op)
}

// ---------------------------------------------------------------------------
// pendingConfigChange

type c12CC struct {
	c12Base
	pcc     pendingConfigChange
	ch      chan configChangeRequest
	inChan  int
	curTick uint64
	gcSeen  uint64
}

func c12NewCC(nc bool) c12Table {
	name := "confchange"
	if nc {
		name = "confchange-nc"
	}
	ch := make(chan configChangeRequest, 1)
	t := &c12CC{ch: ch, inChan: -1}
	t.c12Base = c12Base{name: name, notifyCommit: nc, gcInterval: defaultGCTick}
	t.truth = t.truthFn
	t.pcc = newPendingConfigChange(ch, nc)
	return t
}

func (t *c12CC) base() *c12Base { return &t.c12Base }

func (t *c12CC) enabled() []uint32 {
	out := []uint32{c12op(c12kRequest, 0), c12op(c12kRequest, 1)}
	for _, r := range t.reqs {
		if r.eng == c12EngFresh && t.notifyCommit {
			out = append(out, c12op(c12kCommitted, uint32(r.id)))
		}
		if r.eng == c12EngFresh || r.eng == c12EngCommitted {
			out = append(out, c12op(c12kApplied, uint32(r.id)*2), c12op(c12kApplied, uint32(r.id)*2+1))
		}
		if r.eng == c12EngFresh {
			out = append(out, c12op(c12kDropped, uint32(r.id)))
		}
	}
	if t.inChan >= 0 {
		// node.handleConfigChange: the step worker receives the request and
		// proposes it, the outcome for its key arrives (much) later
		out = append(out, c12op(c12kTake, 0))
	}
	out = append(out, c12op(c12kTick, 0))
	if t.curTick != t.gcSeen {
		out = append(out, c12op(c12kGC, 0))
	}
	out = append(out, t.releaseOps(c12kRelease, true)...)
	if !t.closed {
		out = append(out, c12op(c12kClose, 0))
	}
	return out
}

// take emulates node.handleConfigChange receiving from configChangeC.
func (t *c12CC) take(r *c12Req) *c12Viol {
	if r.keyKnown {
		return nil
	}
	if t.inChan != r.id || len(t.ch) == 0 {
		return c12v(t.name+"/channel-content-mismatch", "the config change of request #%d is not in confChangeC", r.id)
	}
	req := <-t.ch
	t.inChan = -1
	r.keyKnown, r.key = true, req.key
	return nil
}

func (t *c12CC) apply(op uint32) *c12Viol {
	kind, arg := op>>8, op&0xff
	switch kind {
	case c12kRequest:
		timeout := t.tsel(arg)
		rs, err := t.pcc.request(pb.ConfigChange{Type: pb.AddNode, ReplicaID: 2, Address: "a2"}, timeout)
		if err != nil {
			t.outcome("refused:" + err.Error())
			return nil
		}
		r, vi := t.accept(rs, timeout, true)
		if vi != nil {
			return vi
		}
		t.inChan = r.id
	case c12kTake:
		return t.take(t.reqs[t.inChan])
	case c12kCommitted, c12kApplied, c12kDropped:
		id := arg
		if kind == c12kApplied {
			id = arg / 2
		}
		r := t.reqs[id]
		if vi := t.take(r); vi != nil {
			return vi
		}
		t.staleCall(r)
		switch kind {
		case c12kCommitted:
			r.eng, r.committedCalled = c12EngCommitted, true
			t.pcc.committed(r.key)
		case c12kApplied:
			r.eng, r.appliedCalled, r.appliedRejected = c12EngDone, true, arg%2 == 1
			t.pcc.apply(r.key, r.appliedRejected)
		case c12kDropped:
			r.eng, r.droppedCalled = c12EngDone, true
			t.pcc.dropped(r.key)
		}
	case c12kTick:
		t.now++
		t.curTick++
		t.pcc.tick(t.now)
	case c12kGC:
		t.pcc.gc()
		t.gcSeen = t.curTick
	case c12kRelease:
		t.release(arg)
	case c12kClose:
		t.pcc.close()
		t.closed = true
	}
	return nil
}

func (t *c12CC) after(op uint32) *c12Viol {
	if op>>8 == c12kGC {
		return t.afterGC()
	}
	return nil
}

func (t *c12CC) truthFn(r *c12Req, v RequestResult) *c12Viol {
	switch v.code {
	case requestCompleted:
		if !r.appliedCalled || r.appliedRejected {
			return c12v(t.name+"/completed-not-truthful", "request #%d: Completed but apply(key, rejected=false) was not called for its key", r.id)
		}
	case requestRejected:
		if !r.appliedCalled || !r.appliedRejected {
			return c12v(t.name+"/rejected-not-truthful", "request #%d: Rejected but apply(key, rejected=true) was not called for its key", r.id)
		}
	case requestDropped:
		if !r.droppedCalled {
			return c12v(t.name+"/dropped-not-truthful", "request #%d: Dropped but dropped(key) was not called for its key", r.id)
		}
	default:
		return c12v(t.name+"/unexpected-result-code", "request #%d: unexpected result code %s", r.id, v.code)
	}
	return nil
}

func (t *c12CC) describe(op uint32) string {
	kind, arg := op>>8, op&0xff
	switch kind {
	case c12kRequest:
		return fmt.Sprintf("requestConfigChange(timeout=%d)", t.tsel(arg))
	case c12kTake:
		return "handleConfigChange{<-configChangeC}"
	case c12kCommitted:
		return fmt.Sprintf("committed(key#%d)", arg)
	case c12kApplied:
		return fmt.Sprintf("apply(key#%d,rejected=%v)", arg/2, arg%2 == 1)
	case c12kDropped:
		return fmt.Sprintf("dropped(key#%d)", arg)
	case c12kTick:
		return "tick"
	case c12kGC:
		return "gc"
	case c12kRelease:
		return fmt.Sprintf("release(#%d)", arg)
	case c12kClose:
		return "close"
	}
	return fmt.Sprint(op)
}

// ---------------------------------------------------------------------------
// pendingSnapshot

type c12Snap struct {
	c12Base
	ps      pendingSnapshot
	ch      chan rsm.SSRequest
	inChan  int
	curTick uint64
	gcSeen  uint64
}

func c12NewSnap() c12Table {
	ch := make(chan rsm.SSRequest, 1)
	t := &c12Snap{ch: ch, inChan: -1}
	t.c12Base = c12Base{name: "snapshot", gcInterval: defaultGCTick}
	t.truth = t.truthFn
	t.ps = newPendingSnapshot(ch)
	return t
}

func (t *c12Snap) base() *c12Base { return &t.c12Base }

func (t *c12Snap) enabled() []uint32 {
	out := []uint32{c12op(c12kRequest, 0), c12op(c12kRequest, 1)}
	for _, r := range t.reqs {
		if r.eng == c12EngFresh {
			// node.save -> apply(completed) / apply(ignored); doSave -> apply(aborted)
			out = append(out, c12op(c12kApplied, uint32(r.id)*4), c12op(c12kApplied, uint32(r.id)*4+1), c12op(c12kApplied, uint32(r.id)*4+2))
		} else if r.eng == c12EngAborted {
			// node.save calls apply(key, index==0) after doSave reported the abort
			out = append(out, c12op(c12kApplied, uint32(r.id)*4+1))
		}
	}
	if t.inChan >= 0 {
		// node.handleSnapshot: the step worker receives the request and hands it
		// to the snapshot worker, the outcome for its key arrives later
		out = append(out, c12op(c12kTake, 0))
	}
	out = append(out, c12op(c12kTick, 0))
	if t.curTick != t.gcSeen {
		out = append(out, c12op(c12kGC, 0))
	}
	out = append(out, t.releaseOps(c12kRelease, true)...)
	if !t.closed {
		out = append(out, c12op(c12kClose, 0))
	}
	return out
}

func (t *c12Snap) apply(op uint32) *c12Viol {
	kind, arg := op>>8, op&0xff
	switch kind {
	case c12kRequest:
		timeout := t.tsel(arg)
		rs, err := t.ps.request(rsm.UserRequested, "", false, 0, 0, timeout)
		if err != nil {
			t.outcome("refused:" + err.Error())
			return nil
		}
		r, vi := t.accept(rs, timeout, true)
		if vi != nil {
			return vi
		}
		t.inChan = r.id
	case c12kTake:
		return t.take(t.reqs[t.inChan])
	case c12kApplied:
		r := t.reqs[arg/4]
		if vi := t.take(r); vi != nil {
			return vi
		}
		t.staleCall(r)
		switch arg % 4 {
		case 0:
			r.eng, r.appliedCalled, r.appliedVal = c12EngDone, true, uint64(10+r.id)
			t.ps.apply(r.key, false, false, r.appliedVal)
		case 1:
			r.eng, r.ignoredCalled = c12EngDone, true
			t.ps.apply(r.key, true, false, 0)
		case 2:
			r.eng, r.abortedCalled = c12EngAborted, true
			t.ps.apply(r.key, false, true, 0)
		}
	case c12kTick:
		t.now++
		t.curTick++
		t.ps.tick(t.now)
	case c12kGC:
		t.ps.gc()
		t.gcSeen = t.curTick
	case c12kRelease:
		t.release(arg)
	case c12kClose:
		t.ps.close()
		t.closed = true
	}
	return nil
}

// take emulates node.handleSnapshot receiving from snapshotC.
func (t *c12Snap) take(r *c12Req) *c12Viol {
	if r.keyKnown {
		return nil
	}
	if t.inChan != r.id || len(t.ch) == 0 {
		return c12v(t.name+"/channel-content-mismatch", "the snapshot request #%d is not in snapshotC", r.id)
	}
	req := <-t.ch
	t.inChan = -1
	r.keyKnown, r.key = true, req.Key
	return nil
}

func (t *c12Snap) after(op uint32) *c12Viol {
	if op>>8 == c12kGC {
		return t.afterGC()
	}
	return nil
}

func (t *c12Snap) truthFn(r *c12Req, v RequestResult) *c12Viol {
	if !v.snapshotResult {
		return c12v(t.name+"/not-a-snapshot-result", "request #%d: result %s is not marked as a snapshot result", r.id, v.code)
	}
	switch v.code {
	case requestCompleted:
		if !r.appliedCalled {
			return c12v(t.name+"/completed-not-truthful", "request #%d: Completed but apply(key, index) was not called for its key", r.id)
		}
		if v.SnapshotIndex() != r.appliedVal {
			return c12v(t.name+"/completed-wrong-value", "request #%d: Completed carries snapshot index %d, the snapshot was taken at %d%s",
				r.id, v.SnapshotIndex(), r.appliedVal, t.belongsTo(r, v.SnapshotIndex()))
		}
	case requestRejected:
		if !r.ignoredCalled {
			return c12v(t.name+"/rejected-not-truthful", "request #%d: Rejected but apply(key, ignored) was not called for its key", r.id)
		}
	case requestAborted:
		if !r.abortedCalled {
			return c12v(t.name+"/aborted-not-truthful", "request #%d: Aborted but apply(key, aborted) was not called for its key", r.id)
		}
	default:
		return c12v(t.name+"/unexpected-result-code", "request #%d: unexpected result code %s", r.id, v.code)
	}
	return nil
}

func (t *c12Snap) describe(op uint32) string {
	kind, arg := op>>8, op&0xff
	switch kind {
	case c12kRequest:
		return fmt.Sprintf("requestSnapshot(timeout=%d)", t.tsel(arg))
	case c12kTake:
		return "handleSnapshot{<-snapshotC}"
	case c12kApplied:
		return fmt.Sprintf("apply(key#%d,%s)", arg/4, []string{fmt.Sprintf("index=%d", 10+arg/4), "ignored", "aborted", "?"}[arg%4])
	case c12kTick:
		return "tick"
	case c12kGC:
		return "gc"
	case c12kRelease:
		return fmt.Sprintf("release(#%d)", arg)
	case c12kClose:
		return "close"
	}
	return fmt.Sprint(op)
}

// ---------------------------------------------------------------------------
// pendingRaftLogQuery

type c12LQ struct {
	c12Base
	lq          pendingRaftLogQuery
	outstanding bool
	issuedFor   int
	issues      int
}

func c12NewLQ() c12Table {
	t := &c12LQ{}
	t.c12Base = c12Base{name: "logquery"}
	t.truth = t.truthFn
	t.lq = newPendingRaftLogQuery()
	return t
}

func (t *c12LQ) base() *c12Base { return &t.c12Base }

func (t *c12LQ) pendingReq() *c12Req {
	for _, r := range t.reqs {
		if !r.terminal {
			return r
		}
	}
	return nil
}

func (t *c12LQ) enabled() []uint32 {
	out := []uint32{c12op(c12kRequest, 0)}
	if t.outstanding {
		// the step worker is between handleLogQuery (stepNode) and
		// processLogQuery (engine.processSteps): only other goroutines can run
		out = append(out, c12op(c12kReturned, 0), c12op(c12kReturned, 1))
	} else if t.pendingReq() != nil {
		out = append(out, c12op(c12kIssue, 0))
	}
	out = append(out, t.releaseOps(c12kRelease, true)...)
	if !t.closed {
		out = append(out, c12op(c12kClose, 0))
	}
	return out
}

func (t *c12LQ) apply(op uint32) *c12Viol {
	kind, arg := op>>8, op&0xff
	switch kind {
	case c12kRequest:
		rs, err := t.lq.add(1, uint64(5+len(t.reqs)), 100)
		if err != nil {
			t.outcome("refused:" + err.Error())
			return nil
		}
		if _, vi := t.accept(rs, 0, false); vi != nil {
			return vi
		}
	case c12kIssue:
		// node.handleLogQuery
		r := t.pendingReq()
		req := t.lq.get()
		if req != r.rs {
			return c12v(t.name+"/get-mismatch", "pendingRaftLogQuery.get() did not return the pending request #%d", r.id)
		}
		t.outstanding, t.issuedFor = true, r.id
		t.issues++
	case c12kReturned:
		// node.processLogQuery
		r := t.reqs[t.issuedFor]
		t.outstanding = false
		t.staleCall(r)
		r.eng, r.appliedCalled, r.appliedRejected, r.appliedVal = c12EngDone, true, arg == 1, uint64(100+t.issues)
		var ents []pb.Entry
		if arg == 0 {
			ents = []pb.Entry{{Index: r.appliedVal, Term: 1}}
		}
		t.lq.returned(arg == 1, LogRange{FirstIndex: 1, LastIndex: r.appliedVal}, ents)
	case c12kRelease:
		t.release(arg)
	case c12kClose:
		t.lq.close()
		t.closed = true
	}
	return nil
}

func (t *c12LQ) after(op uint32) *c12Viol { return nil }

func (t *c12LQ) truthFn(r *c12Req, v RequestResult) *c12Viol {
	if !v.logQueryResult {
		return c12v(t.name+"/not-a-logquery-result", "request #%d: result %s is not marked as a log query result", r.id, v.code)
	}
	switch v.code {
	case requestCompleted:
		if !r.appliedCalled || r.appliedRejected {
			return c12v(t.name+"/completed-not-truthful", "request #%d: Completed but returned(outOfRange=false) was not called for it", r.id)
		}
		ents, lr := v.RaftLogs()
		if lr.LastIndex != r.appliedVal || len(ents) != 1 || ents[0].Index != r.appliedVal {
			return c12v(t.name+"/completed-wrong-value", "request #%d: Completed carries range %v / %d entries, raft returned last index %d", r.id, lr, len(ents), r.appliedVal)
		}
	case requestOutOfRange:
		if !r.appliedCalled || !r.appliedRejected {
			return c12v(t.name+"/outofrange-not-truthful", "request #%d: OutOfRange but returned(outOfRange=true) was not called for it", r.id)
		}
	default:
		return c12v(t.name+"/unexpected-result-code", "request #%d: unexpected result code %s", r.id, v.code)
	}
	return nil
}

func (t *c12LQ) describe(op uint32) string {
	kind, arg := op>>8, op&0xff
	switch kind {
	case c12kRequest:
		return "queryRaftLog"
	case c12kIssue:
		return "handleLogQuery{get}"
	case c12kReturned:
		return fmt.Sprintf("processLogQuery{returned(outOfRange=%v)}", arg == 1)
	case c12kRelease:
		return fmt.Sprintf("release(#%d)", arg)
	case c12kClose:
		return "close"
	}
	return fmt.Sprint(op)
}

// ---------------------------------------------------------------------------
// stepping and enumeration

var c12Digits = regexp.MustCompile(`[0-9]+`)

func c12PanicKey(name, msg string) string {
	m := c12Digits.ReplaceAllString(msg, "N")
	if i := strings.IndexByte(m, '\n'); i >= 0 {
		m = m[:i]
	}
	if len(m) > 80 {
		m = m[:80]
	}
	return name + "/panic/" + m
}

// c12Step applies one op to the real table and the model and evaluates the
// oracle: channels polled without blocking, then the "never zero" clauses.
func c12Step(t c12Table, op uint32) (vi *c12Viol) {
	b := t.base()
	if p := verifkit.Catch(func() { vi = t.apply(op) }); p != "" {
		return c12v(c12PanicKey(b.name, p), "%s panicked: %s", t.describe(op), p)
	}
	if vi != nil {
		return vi
	}
	if p := verifkit.Catch(func() { vi = b.observe() }); p != "" {
		return c12v(c12PanicKey(b.name, p), "reading results after %s panicked: %s", t.describe(op), p)
	}
	if vi != nil {
		return vi
	}
	if vi = t.after(op); vi != nil {
		return vi
	}
	return b.afterClose()
}

type c12Sub struct {
	name   string
	mk     func() c12Table
	qDepth int
	tDepth int
}

func c12Subs() []c12Sub {
	return []c12Sub{
		{"proposal", func() c12Table { return c12NewProp(false) }, 7, 8},
		{"proposal-nc", func() c12Table { return c12NewProp(true) }, 7, 8},
		{"read", c12NewRead, 7, 8},
		{"confchange", func() c12Table { return c12NewCC(false) }, 8, 9},
		{"confchange-nc", func() c12Table { return c12NewCC(true) }, 8, 9},
		{"snapshot", c12NewSnap, 8, 9},
		{"logquery", c12NewLQ, 11, 13},
	}
}

type c12Replay struct {
	Table  string   `json:"table"`
	Ops    []uint32 `json:"ops"`
	Events []string `json:"events"`
}

type c12Search struct {
	sub       c12Sub
	depth     int
	prefix    int
	run       *verifkit.Run
	res       *verifkit.Result
	nodes     int64
	nontriv   int64
	instances int64
	prefixCtr uint64
	maxReqs   int
	stop      bool
	limit     int
	visited   int64
	byDepth   []int64
}

// replay executes path on a fresh table; the outcome statistics are recorded
// for the last step only (every path is the last step of exactly one node).
func (s *c12Search) replay(path []uint32, count bool) (c12Table, *c12Viol, int) {
	t := s.sub.mk()
	s.instances++
	if s.instances%2048 == 0 {
		runtime.GC()
	}
	for i, op := range path {
		if count && i == len(path)-1 {
			t.base().count = s.res.Outcome
		}
		if vi := c12Step(t, op); vi != nil {
			return t, vi, i
		}
	}
	return t, nil, -1
}

func c12Events(mk func() c12Table, path []uint32) []string {
	// descriptions are context free, any instance can render them
	t := mk()
	out := make([]string, len(path))
	for i, op := range path {
		out[i] = t.describe(op)
	}
	return out
}

// explore runs one pass of the iterative deepening: it visits every sequence
// of length <= s.limit and evaluates (counts) the ones of length == s.limit;
// shorter ones were evaluated by the earlier passes and are re-executed only
// to learn which operations are enabled after them. Passes up to
// c12UnshardedDepth are executed in full by every shard (so the replay kept for
// a violation key is a globally shortest sequence when one that short exists)
// and counted by shard 0; deeper passes are split by the length-3 prefix.
func (s *c12Search) explore(path []uint32, owned bool) {
	if s.stop {
		return
	}
	s.visited++
	if s.visited%512 == 0 && s.run.Expired() {
		s.res.Cap(fmt.Sprintf("deadline reached in sub-search %s at length %d", s.sub.name, s.limit))
		s.stop = true
		return
	}
	sharded := s.limit > c12UnshardedDepth
	if sharded && len(path) == s.prefix && !owned {
		k := s.prefixCtr
		s.prefixCtr++
		if !s.run.Mine(k + uint64(s.run.Seed)) {
			return
		}
		owned = true
	}
	leaf := len(path) == s.limit
	counted := leaf && ((sharded && owned) || (!sharded && s.run.Shard == 0))
	t, vi, _ := s.replay(path, counted)
	if counted {
		s.nodes++
		for len(s.byDepth) <= len(path) {
			s.byDepth = append(s.byDepth, 0)
		}
		s.byDepth[len(path)]++
		b := t.base()
		if len(b.reqs) > 0 && b.delivered > 0 {
			s.nontriv++
		}
		if len(b.reqs) > s.maxReqs {
			s.maxReqs = len(b.reqs)
		}
		if s.nodes%50021 == 1 && vi == nil && len(path) > 2 {
			s.res.Sample(4, map[string]interface{}{"table": s.sub.name, "events": c12Events(s.sub.mk, path),
				"accepted": len(b.reqs), "results": b.delivered})
		}
	}
	if vi != nil {
		if counted {
			s.res.Outcome(s.sub.name + ":VIOLATION:" + vi.key)
		}
		if s.res.Violate(vi.key, fmt.Sprintf("[%s] after %v: %s", s.sub.name, c12Events(s.sub.mk, path), vi.desc),
			c12Replay{Table: s.sub.name, Ops: append([]uint32{}, path...), Events: c12Events(s.sub.mk, path)}) {
			s.res.Cap("stopped after the maximum number of distinct violations")
			s.stop = true
		}
		return // a path ends at its first violation
	}
	if leaf {
		return
	}
	for _, op := range t.enabled() {
		s.explore(append(path, op), owned)
		if s.stop {
			return
		}
	}
}

const c12UnshardedDepth = 5

func TestVerifC12Tables(t *testing.T) {
	run := verifkit.Env()
	res := verifkit.NewResult()
	defer run.Finish(res)
	res.MaxViolations = 12

	oldLog, oldShards := plog, pendingProposalShards
	plog = c12QuietLogger{}
	pendingProposalShards = 1
	defer func() { plog, pendingProposalShards = oldLog, oldShards }()
	// sync.Pool keeps a released object across at most one GC cycle; collecting
	// only between sequences makes Release -> new request reuse deterministic
	// (the model is indifferent to whether the same object comes back).
	defer debug.SetGCPercent(debug.SetGCPercent(-1))

	res.Rule = "every operation sequence (client: request with timeout 1|3 ticks, Release of any owned RequestState; engine: exactly the calls node.go/engine.go make - committed/applied/dropped per key, read batch protocol, tick, tick-gated gc, close) of length 1..depth on each real pending* table, executed from a fresh table; one evaluation = one distinct sequence, checked after its last step; non-trivial = at least one request was accepted and at least one result was delivered in the sequence"
	res.Assumptions = []string{
		"single-threaded: every table method call is atomic (each takes the table lock); interleavings inside a call are covered by parts sched/node, not here",
		"results are read from RequestState.CompletedC/committedC directly (what AppliedC()/ResultC() return without commit notification); the ResultC() bridging goroutine is not exercised",
		"the client drains its channels after every step; ticks advance by exactly one",
		"clause result-after-deadline (proposal, read: Completed/Rejected/Dropped only while now <= deadline) is taken from the mechanism 'deadline check at notification time', it is stricter than the literal statement",
	}

	if run.Replay != "" {
		var rp c12Replay
		run.LoadReplay(&rp)
		for _, sub := range c12Subs() {
			if sub.name != rp.Table {
				continue
			}
			s := &c12Search{sub: sub, run: run, res: res}
			_, vi, at := s.replay(rp.Ops, false)
			res.Evaluations = 1
			if vi != nil {
				res.Violate(vi.key, fmt.Sprintf("[%s] after %v: %s", sub.name, c12Events(sub.mk, rp.Ops[:at+1]), vi.desc), rp)
			}
		}
		return
	}

	only := ""
	if strings.HasPrefix(run.Part, "tables:") {
		only = strings.TrimPrefix(run.Part, "tables:")
	}
	for _, sub := range c12Subs() {
		if only != "" && only != sub.name {
			continue
		}
		s := &c12Search{sub: sub, depth: run.Pick(sub.qDepth, sub.tDepth), prefix: 3, run: run, res: res}
		for s.limit = 0; s.limit <= s.depth && !s.stop; s.limit++ {
			s.prefixCtr = 0
			s.explore(make([]uint32, 0, 16), false)
		}
		res.Evaluations += s.nodes
		res.DistinctNontrivial += s.nontriv
		res.Extra["sequences_"+sub.name] = s.nodes
		res.Extra["max_depth_"+sub.name] = s.depth
		res.Extra["max_accepted_requests_"+sub.name] = s.maxReqs
		res.Extra["instances_replayed"] = c12ToInt64(res.Extra["instances_replayed"]) + s.instances
		if run.Shard == 0 {
			res.Extra["sequences_by_length_shard0_"+sub.name] = fmt.Sprint(s.byDepth)
		}
		if s.stop {
			break
		}
	}
}

func c12ToInt64(v interface{}) int64 {
	if v == nil {
		return 0
	}
	return v.(int64)
}
