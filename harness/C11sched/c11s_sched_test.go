//go:build verif

// C11S: the overlap part of property C11 (documented threading contract of the
// user state machine) on the schedx engine (E5).
//
// Real goroutines run the REAL rsm.StateMachine + NativeSM + OffloadedStatus +
// TaskQueue (compiled from copies whose sync / sync/atomic imports point to
// the vsync / vatomic shims) over instrumented user state machines (plain
// IStateMachine, IConcurrentStateMachine, IOnDiskStateMachine, wrapped by the
// real adapters of adapter.go). The user methods yield inside and record
// entry/exit, so overlap is observable on every schedule.
package rsm

import (
	"bytes"
	"fmt"
	"io"
	"os"
	"os/exec"
	"regexp"
	"runtime"
	"sort"
	"strings"
	"sync"
	"testing"

	"github.com/lni/dragonboat/v4/client"
	"github.com/lni/dragonboat/v4/config"
	"github.com/lni/dragonboat/v4/internal/verifkit"
	"github.com/lni/dragonboat/v4/internal/verifkit/vsched"
	"github.com/lni/dragonboat/v4/internal/vfs"
	"github.com/lni/dragonboat/v4/logger"
	pb "github.com/lni/dragonboat/v4/raftpb"
	sm "github.com/lni/dragonboat/v4/statemachine"
)

// ---------------------------------------------------------------- monitor

// c11sMon is the oracle: the call table of the property statement.
type c11sMon struct {
	kind     string // plain | concurrent | ondisk
	free     bool   // free-running (-race) mode: no bookkeeping, plain memory accesses instead
	active   map[string]int
	closed   bool
	finds    map[string]string
	overlaps map[string]bool // allowed overlaps that were observed (non-vacuity)
	calls    map[string]int
	// race mode: plain variables whose unsynchronised access the Go race
	// detector reports exactly when the contract is broken
	// snapshot consistency bookkeeping (C08 / C04 oracles, reported only when
	// VERIF_C11S_ORACLE=snapshot): index of the last entry the user state machine
	// holds, the index its state had when PrepareSnapshot ran, and the index its
	// state had at the last Sync (on-disk state machines)
	lastIdx, preparedIdx, syncedIdx uint64
	sessionMode                     bool
	ssFinds                         map[string]string
	excl                            int // written by Update, Sync, PrepareSnapshot, RecoverFromSnapshot, Close
	rw                              int // plain SM: written by Update/Recover/Close, read by Lookup/SaveSnapshot
}

var c11sExclusive = map[string]bool{"Update": true, "Sync": true, "PrepareSnapshot": true, "RecoverFromSnapshot": true, "Close": true}
var c11sPlainWriters = map[string]bool{"Update": true, "RecoverFromSnapshot": true, "Close": true}
var c11sPlainReaders = map[string]bool{"Lookup": true, "SaveSnapshot": true}

func newC11sMon(kind string, free bool) *c11sMon {
	return &c11sMon{kind: kind, free: free, active: map[string]int{}, finds: map[string]string{}, overlaps: map[string]bool{}, calls: map[string]int{}}
}

func c11sPair(a, b string) string {
	if a > b {
		a, b = b, a
	}
	return a + "|" + b
}

// call brackets one user state machine method.
func (m *c11sMon) call(name string) func() {
	if m.free {
		if c11sExclusive[name] {
			m.excl++
		}
		if m.kind == "plain" {
			if c11sPlainWriters[name] {
				m.rw++
			} else if c11sPlainReaders[name] {
				_ = m.rw
			}
		}
		runtime.Gosched()
		return func() {
			if c11sExclusive[name] {
				m.excl++
			}
			if m.kind == "plain" {
				if c11sPlainWriters[name] {
					m.rw++
				} else if c11sPlainReaders[name] {
					_ = m.rw
				}
			}
		}
	}
	m.calls[name]++
	if m.closed && c11sExclusive[name] {
		m.finds[m.kind+"/after-close/"+name] = fmt.Sprintf("%s was called on the %s state machine after Close returned", name, m.kind)
	}
	for other, n := range m.active {
		if n <= 0 {
			continue
		}
		bad := false
		if c11sExclusive[name] && c11sExclusive[other] {
			bad = true
		}
		if m.kind == "plain" && ((c11sPlainWriters[name] && c11sPlainReaders[other]) || (c11sPlainReaders[name] && c11sPlainWriters[other])) {
			bad = true
		}
		if bad {
			m.finds[m.kind+"/overlap/"+c11sPair(name, other)] = fmt.Sprintf("%s was called on the %s state machine while %s was still running", name, m.kind, other)
		} else {
			m.overlaps[c11sPair(name, other)] = true
		}
	}
	m.active[name]++
	vsched.Yield() // inside the user method: other threads may run here
	return func() {
		vsched.Yield()
		m.active[name]--
		if name == "Close" {
			m.closed = true
		}
	}
}

// ---------------------------------------------------------------- user state machines

type c11sPlainSM struct{ m *c11sMon }

func (s *c11sPlainSM) Update(e sm.Entry) (sm.Result, error) {
	defer s.m.call("Update")()
	return sm.Result{Value: e.Index}, nil
}
func (s *c11sPlainSM) Lookup(q interface{}) (interface{}, error) {
	defer s.m.call("Lookup")()
	return q, nil
}
func (s *c11sPlainSM) SaveSnapshot(w io.Writer, fc sm.ISnapshotFileCollection, stopc <-chan struct{}) error {
	defer s.m.call("SaveSnapshot")()
	_, err := w.Write([]byte("plain"))
	return err
}
func (s *c11sPlainSM) RecoverFromSnapshot(r io.Reader, fs []sm.SnapshotFile, stopc <-chan struct{}) error {
	defer s.m.call("RecoverFromSnapshot")()
	return nil
}
func (s *c11sPlainSM) Close() error {
	defer s.m.call("Close")()
	return nil
}

type c11sConcSM struct{ m *c11sMon }

func (s *c11sConcSM) Update(es []sm.Entry) ([]sm.Entry, error) {
	defer s.m.call("Update")()
	for i := range es {
		es[i].Result = sm.Result{Value: es[i].Index}
		s.m.lastIdx = es[i].Index
	}
	return es, nil
}
func (s *c11sConcSM) Lookup(q interface{}) (interface{}, error) {
	defer s.m.call("Lookup")()
	return q, nil
}
func (s *c11sConcSM) PrepareSnapshot() (interface{}, error) {
	defer s.m.call("PrepareSnapshot")()
	s.m.preparedIdx = s.m.lastIdx
	return "ctx", nil
}
func (s *c11sConcSM) SaveSnapshot(ctx interface{}, w io.Writer, fc sm.ISnapshotFileCollection, stopc <-chan struct{}) error {
	defer s.m.call("SaveSnapshot")()
	_, err := w.Write([]byte("conc"))
	return err
}
func (s *c11sConcSM) RecoverFromSnapshot(r io.Reader, fs []sm.SnapshotFile, stopc <-chan struct{}) error {
	defer s.m.call("RecoverFromSnapshot")()
	return nil
}
func (s *c11sConcSM) Close() error {
	defer s.m.call("Close")()
	return nil
}

type c11sDiskSM struct{ m *c11sMon }

func (s *c11sDiskSM) Open(stopc <-chan struct{}) (uint64, error) { return 0, nil }
func (s *c11sDiskSM) Update(es []sm.Entry) ([]sm.Entry, error) {
	defer s.m.call("Update")()
	for i := range es {
		es[i].Result = sm.Result{Value: es[i].Index}
		s.m.lastIdx = es[i].Index
	}
	return es, nil
}
func (s *c11sDiskSM) Lookup(q interface{}) (interface{}, error) {
	defer s.m.call("Lookup")()
	return q, nil
}
func (s *c11sDiskSM) Sync() error {
	defer s.m.call("Sync")()
	s.m.syncedIdx = s.m.lastIdx
	return nil
}
func (s *c11sDiskSM) PrepareSnapshot() (interface{}, error) {
	defer s.m.call("PrepareSnapshot")()
	s.m.preparedIdx = s.m.lastIdx
	return "ctx", nil
}
func (s *c11sDiskSM) SaveSnapshot(ctx interface{}, w io.Writer, stopc <-chan struct{}) error {
	defer s.m.call("SaveSnapshot")()
	_, err := w.Write([]byte("disk"))
	return err
}
func (s *c11sDiskSM) RecoverFromSnapshot(r io.Reader, stopc <-chan struct{}) error {
	defer s.m.call("RecoverFromSnapshot")()
	return nil
}
func (s *c11sDiskSM) Close() error {
	defer s.m.call("Close")()
	return nil
}

// ---------------------------------------------------------------- environment (harness code)

// c11sNode is the INode the StateMachine reports to (node.go in the real
// system); the callbacks are irrelevant to the threading contract.
type c11sNode struct{ stopc chan struct{} }

func (n *c11sNode) StepReady()                                            {}
func (n *c11sNode) RestoreRemotes(pb.Snapshot) error                      { return nil }
func (n *c11sNode) ApplyUpdate(pb.Entry, sm.Result, bool, bool, bool)     {}
func (n *c11sNode) ApplyConfigChange(pb.ConfigChange, uint64, bool) error { return nil }
func (n *c11sNode) ReplicaID() uint64                                     { return 1 }
func (n *c11sNode) ShardID() uint64                                       { return 1 }
func (n *c11sNode) ShouldStop() <-chan struct{}                           { return n.stopc }

// c11sSnapshotter stands in for the root package's snapshotter: it calls the
// ISavable / IStreamable / IRecoverable it is handed exactly once, like the
// real one, without touching the disk (the locks under test are all taken in
// rsm.StateMachine before/around these calls).
type c11sSnapshotter struct {
	kind string
	m    *c11sMon
}

func (s *c11sSnapshotter) GetSnapshot() (pb.Snapshot, error) {
	return pb.Snapshot{Index: 10, Term: 1, OnDiskIndex: 10,
		Membership: pb.Membership{Addresses: map[uint64]string{1: "a1"}}}, nil
}
func (s *c11sSnapshotter) Stream(st IStreamable, meta SSMeta, sink pb.IChunkSink) error {
	return st.Stream(meta.Ctx, &bytes.Buffer{})
}
func (s *c11sSnapshotter) Shrunk(ss pb.Snapshot) (bool, error) { return false, nil }
func (s *c11sSnapshotter) Save(sv ISavable, meta SSMeta) (pb.Snapshot, SSEnv, error) {
	_, err := sv.Save(meta, &bytes.Buffer{}, meta.Session.Bytes(), nil)
	if m := s.m; m != nil && !m.free && err == nil && meta.Request.Type != Exported {
		if m.ssFinds == nil {
			m.ssFinds = map[string]string{}
		}
		// C08: the image a concurrent / on-disk state machine hands out is the state PrepareSnapshot
		// captured; the index the snapshot is labelled with must be the index of exactly that state
		if s.kind == "concurrent" && m.preparedIdx != meta.Index { // (an on-disk state machine's local snapshot is a dummy: Prepare is not called)
			m.ssFinds[s.kind+"/snapshot/label-differs-from-prepared-state"] = fmt.Sprintf("snapshot labelled index %d holds the state PrepareSnapshot captured at index %d", meta.Index, m.preparedIdx)
		}
		// C05/C08: the session image of the snapshot belongs to the same point as its state image: every
		// session-managed entry the image holds has its response in the session table (none was acknowledged)
		if m.sessionMode && s.kind == "concurrent" {
			mgr := NewSessionManager()
			if err := mgr.LoadSessions(bytes.NewReader(meta.Session.Bytes()), V2); err != nil {
				m.ssFinds["concurrent/snapshot/session-image-unreadable"] = err.Error()
			} else if sess, ok := mgr.ClientRegistered(12345); !ok {
				m.ssFinds["concurrent/snapshot/session-missing"] = "the registered client session is not in the snapshot's session image"
			} else {
				want := 0
				for i := uint64(2); i <= m.preparedIdx; i++ {
					want++
				}
				if len(sess.History) != want {
					m.ssFinds["concurrent/snapshot/session-image-differs-from-state-image"] = fmt.Sprintf("the state image holds %d session-managed proposal(s) (prepared at index %d), the session image of the same snapshot holds %d cached response(s): a retry after a restore from this snapshot is applied twice", want, m.preparedIdx, len(sess.History))
				}
			}
		}
		// C04/C08: once an on-disk state machine's snapshot at index X is recorded the log up to X may be
		// compacted, so everything up to X must have been made durable by Sync
		if s.kind == "ondisk" && m.syncedIdx < meta.Index {
			m.ssFinds["ondisk/snapshot/not-synced-up-to-its-index"] = fmt.Sprintf("snapshot of the on-disk state machine at index %d recorded while Sync last ran at index %d", meta.Index, m.syncedIdx)
		}
	}
	return pb.Snapshot{Index: meta.Index, Term: meta.Term}, SSEnv{}, err
}
func (s *c11sSnapshotter) Load(ss pb.Snapshot, l ILoadable, r IRecoverable) error {
	return r.Recover(bytes.NewReader(nil), nil)
}
func (s *c11sSnapshotter) IsNoSnapshotError(err error) bool { return false }

// ---------------------------------------------------------------- scenarios

// c11sScenario: thread programs over
//
//	apply    : H = StateMachine.Handle (apply worker, engine.processApplies)
//	snapshot : S = Save(UserRequested), E = Save(Exported), T = Stream (snapshot worker pool)
//	recover  : R = Recover (snapshot worker pool)
//	reader   : L = Lookup (NodeHost.StaleRead / ReadLocalNode / SyncRead; not part of the offload count)
//	host     : NodeHost.stopNode -> node.offloaded()
//
// Every thread except reader ends with StateMachine.Offloaded(); the thread
// that brings the load count to zero calls StateMachine.Close(), which is
// what node.offloaded() -> engine.setCloseReady -> closeWorker ->
// node.destroy() does (causally after the last Offloaded()).
type c11sScenario struct {
	Name     string   `json:"name"`
	Kind     string   `json:"kind"`
	Apply    []string `json:"apply,omitempty"`
	Snapshot []string `json:"snapshot,omitempty"`
	Recover  []string `json:"recover,omitempty"`
	Reader   []string `json:"reader,omitempty"`
	Host     bool     `json:"host"`
}

func c11sScenarios() []c11sScenario {
	var out []c11sScenario
	add := func(kind string, ap, ss, rc, rd []string, host bool) {
		s := c11sScenario{Kind: kind, Apply: ap, Snapshot: ss, Recover: rc, Reader: rd, Host: host}
		s.Name = fmt.Sprintf("%s apply=%s snapshot=%s recover=%s reader=%s host=%v", kind,
			strings.Join(ap, ""), strings.Join(ss, ""), strings.Join(rc, ""), strings.Join(rd, ""), host)
		out = append(out, s)
	}
	HH, L, LL := []string{"H", "H"}, []string{"L"}, []string{"L", "L"}
	for _, kind := range []string{"plain", "concurrent", "ondisk"} {
		add(kind, nil, nil, nil, L, true)  // client read vs stop
		add(kind, nil, nil, nil, LL, true) // ...
		add(kind, HH, nil, nil, LL, true)  // apply worker + reads + stop
		add(kind, HH, nil, nil, L, false)  // apply worker is the last component
		add(kind, nil, []string{"S"}, nil, LL, true)
		add(kind, nil, nil, []string{"R"}, LL, true)
		add(kind, nil, nil, []string{"R"}, L, false)
		if kind != "plain" {
			// the engine lets the apply worker run while a concurrent/on-disk SM is
			// being saved (node.processSaveStatus); not so for the plain SM
			add(kind, HH, []string{"S"}, nil, L, true)
			add(kind, HH, []string{"S"}, nil, nil, true)
			add(kind, HH, []string{"S"}, nil, LL, false)
		}
		if kind == "ondisk" {
			add(kind, HH, []string{"E"}, nil, L, true)
			add(kind, HH, []string{"T"}, nil, L, true)
			add(kind, HH, []string{"T"}, nil, nil, true)
			add(kind, nil, []string{"T"}, nil, LL, true)
			add(kind, nil, []string{"E"}, nil, LL, true)
		}
	}
	return out
}

type c11sWorld struct {
	sc   *c11sScenario
	mon  *c11sMon
	s    *StateMachine
	emu  sync.Mutex
	errs []string
}

func c11sEntry(i uint64) pb.Entry {
	return pb.Entry{Index: i, Term: 1, Type: pb.ApplicationEntry, Key: 100 + i,
		ClientID: 12345, SeriesID: client.NoOPSeriesID, Cmd: []byte("x")}
}

// c11sSessionMode: run as C08 part rsm-sched, the entries of concurrent state
// machines belong to a registered client session (series = index, never
// acknowledged), so that the session image of a snapshot can be compared with
// its state image
func c11sSessionMode(kind string) bool {
	return os.Getenv("VERIF_C11S_ORACLE") == "snapshot" && kind == "concurrent"
}

func c11sSessionEntry(i uint64) pb.Entry {
	return pb.Entry{Index: i, Term: 1, Type: pb.ApplicationEntry, Key: 100 + i,
		ClientID: 12345, SeriesID: i, RespondedTo: 0, Cmd: []byte("x")}
}

func c11sNewWorld(sc *c11sScenario, free bool) *c11sWorld {
	w := &c11sWorld{sc: sc, mon: newC11sMon(sc.Kind, free)}
	cfg := config.Config{ShardID: 1, ReplicaID: 1}
	done := make(chan struct{})
	var ism IStateMachine
	switch sc.Kind {
	case "plain":
		ism = NewInMemStateMachine(&c11sPlainSM{w.mon})
	case "concurrent":
		ism = NewConcurrentStateMachine(&c11sConcSM{w.mon})
	case "ondisk":
		ism = NewOnDiskStateMachine(&c11sDiskSM{w.mon})
	}
	managed := NewNativeSM(cfg, ism, done)
	w.s = NewStateMachine(managed, &c11sSnapshotter{kind: sc.Kind, m: w.mon}, cfg, &c11sNode{stopc: done}, vfs.GetTestFS())
	w.s.members.set(pb.Membership{Addresses: map[uint64]string{1: "a1"}})
	if sc.Kind == "ondisk" {
		if _, err := w.s.OpenOnDiskStateMachine(); err != nil {
			panic(err)
		}
	}
	// what node.pushEntries / runSyncTask queued before the apply worker runs
	if c11sSessionMode(sc.Kind) && len(sc.Apply) > 0 {
		// the client's session is registered first (single threaded, not judged)
		w.s.TaskQ().Add(Task{Entries: []pb.Entry{{Index: 1, Term: 1, Type: pb.ApplicationEntry, Key: 99,
			ClientID: 12345, SeriesID: client.SeriesIDForRegister}}})
		if _, err := w.s.Handle(make([]Task, 0, 4), make([]sm.Entry, 0, 4)); err != nil {
			panic(err)
		}
		w.mon.sessionMode = true
		w.mon.lastIdx = 1 // the register entry is applied without an Update call: the user state is "as of index 1"
		w.s.TaskQ().Add(Task{Entries: []pb.Entry{c11sSessionEntry(2), c11sSessionEntry(3)}})
		w.s.TaskQ().Add(Task{Entries: []pb.Entry{c11sSessionEntry(4)}})
	} else if len(sc.Apply) > 0 {
		w.s.TaskQ().Add(Task{Entries: []pb.Entry{c11sEntry(1), c11sEntry(2)}})
		if sc.Kind == "ondisk" {
			w.s.TaskQ().Add(Task{PeriodicSync: true})
		}
		w.s.TaskQ().Add(Task{Entries: []pb.Entry{c11sEntry(3)}})
	} else if len(sc.Snapshot) > 0 {
		// something must have been applied for a snapshot to be taken: done here,
		// single threaded, before the threads start (not judged)
		w.s.TaskQ().Add(Task{Entries: []pb.Entry{c11sEntry(1)}})
		if _, err := w.s.Handle(make([]Task, 0, 4), make([]sm.Entry, 0, 4)); err != nil {
			panic(err)
		}
	}
	return w
}

func (w *c11sWorld) fail(f string, a ...interface{}) {
	w.emu.Lock()
	w.errs = append(w.errs, fmt.Sprintf(f, a...))
	w.emu.Unlock()
}

// offload is node.offloaded(): the last component that lets go closes.
func (w *c11sWorld) offload() {
	if w.s.Offloaded() {
		if err := w.s.Close(); err != nil {
			w.fail("Close: %v", err)
		}
	}
}

func c11sSetup(sc *c11sScenario, wp **c11sWorld) func(r *vsched.Run) {
	return func(r *vsched.Run) {
		w := c11sNewWorld(sc, r.Free())
		*wp = w
		// in controller context: reset what the setup calls recorded
		w.mon.calls = map[string]int{}
		w.mon.overlaps = map[string]bool{}
		if len(sc.Apply) > 0 {
			w.s.Loaded() // engine.loadBucketNodes -> node.loaded() (apply worker)
			r.Go("apply", func() {
				batch := make([]Task, 0, 8)
				ents := make([]sm.Entry, 0, 8)
				for range sc.Apply {
					vsched.Yield()
					if _, err := w.s.Handle(batch, ents); err != nil {
						w.fail("Handle: %v", err)
					}
				}
				vsched.Yield()
				w.offload()
			})
		}
		if len(sc.Snapshot) > 0 {
			w.s.Loaded() // workerPool.setBusy -> node.loaded()
			r.Go("snapshot", func() {
				for _, op := range sc.Snapshot {
					vsched.Yield()
					var err error
					switch op {
					case "S":
						_, _, err = w.s.Save(SSRequest{Type: UserRequested, Key: 1})
					case "E":
						_, _, err = w.s.Save(SSRequest{Type: Exported, Path: "/exp", Key: 2})
					case "T":
						err = w.s.Stream(nil)
					}
					if err != nil {
						w.fail("snapshot %s: %v", op, err)
					}
				}
				vsched.Yield()
				w.offload() // workerPool.setIdle -> node.offloaded()
			})
		}
		if len(sc.Recover) > 0 {
			w.s.Loaded()
			r.Go("recover", func() {
				vsched.Yield()
				if _, err := w.s.Recover(Task{Recover: true, Index: 5}); err != nil {
					w.fail("Recover: %v", err)
				}
				vsched.Yield()
				w.offload()
			})
		}
		if len(sc.Reader) > 0 {
			r.Go("reader", func() {
				for range sc.Reader {
					vsched.Yield()
					// NodeHost.StaleRead / ReadLocalNode: node.sm.Lookup(query)
					if _, err := w.s.Lookup("q"); err != nil && err != ErrShardClosed {
						w.fail("Lookup: %v", err)
					}
				}
			})
		}
		if sc.Host {
			w.s.Loaded() // NodeHost.startShard
			r.Go("host", func() {
				vsched.Yield()
				w.offload() // NodeHost.stopNode -> node.offloaded()
			})
		}
	}
}

// ---------------------------------------------------------------- driver

type c11sReplay struct {
	Scenario c11sScenario `json:"scenario"`
	Choices  []int        `json:"choices"`
	Schedule string       `json:"schedule"`
	Horizon  int          `json:"horizon"`
}

const c11sHorizon = 500

func c11sQuiet() {
	for _, n := range []string{"dragonboat", "rsm", "raft", "raftpb", "config", "transport", "logdb"} {
		logger.GetLogger(n).SetLevel(logger.CRITICAL)
	}
}

func c11sFinish(run *verifkit.Run, res *verifkit.Result) {
	if rec := recover(); rec != nil {
		panic(rec)
	}
	run.Finish(res)
}

var c11sNum = regexp.MustCompile(`0x[0-9a-f]+|\d+`)

func (w *c11sWorld) judge(o *vsched.Outcome) (map[string]string, []string) {
	finds := map[string]string{}
	var classes []string
	switch o.Status {
	case vsched.Panicked:
		finds[w.sc.Kind+"/panic/"+c11sNum.ReplaceAllString(o.Msg, "N")] = "a thread panicked: " + o.Msg
	case vsched.Deadlock:
		finds[w.sc.Kind+"/deadlock"] = "deadlock: " + o.Msg
	case vsched.Livelock:
		finds[w.sc.Kind+"/livelock"] = "livelock: " + o.Msg
	}
	if os.Getenv("VERIF_C11S_ORACLE") == "snapshot" {
		// run as a part of C08: only the snapshot consistency findings count
		finds = map[string]string{}
		for k, v := range w.mon.ssFinds {
			finds[k] = v
		}
		return finds, []string{fmt.Sprintf("prepared=%d synced=%d last=%d", w.mon.preparedIdx, w.mon.syncedIdx, w.mon.lastIdx)}
	}
	for k, v := range w.mon.finds {
		finds[k] = v
	}
	for _, e := range w.errs {
		finds[w.sc.Kind+"/error/"+c11sNum.ReplaceAllString(e, "N")] = "unexpected error from the state machine layer: " + e
	}
	for k := range w.mon.overlaps {
		classes = append(classes, "overlap:"+k)
	}
	var cs []string
	for k, n := range w.mon.calls {
		cs = append(cs, fmt.Sprintf("%s×%d", k, n))
	}
	sort.Strings(cs)
	classes = append(classes, "calls:"+strings.Join(cs, ","))
	if w.mon.closed {
		classes = append(classes, "closed")
	}
	sort.Strings(classes)
	return finds, classes
}

func TestVerifC11SSched(t *testing.T) {
	run := verifkit.Env()
	res := verifkit.NewResult()
	defer c11sFinish(run, res)
	runtime.GOMAXPROCS(1)
	c11sQuiet()
	bound := run.Pick(2, 3)
	res.Rule = fmt.Sprintf("case = one complete schedule (scheduler choice list) of one thread scenario on a fresh real rsm.StateMachine+NativeSM over an instrumented user state machine; all schedules with <= %d preemptions of every scenario are enumerated by the iterative-context-bounding DFS; non-trivial = at least two user state machine methods were called and the schedule has >= 1 preemption or an observed (allowed or forbidden) overlap", bound)
	res.Assumptions = []string{
		"schedx: interleavings at the granularity of sync/atomic operations of internal/rsm, the yields inside the instrumented user methods and harness yields between operations; unsynchronised accesses between two scheduling points are atomic (covered by the race part)",
		fmt.Sprintf("preemption bound %d; thread combinations restricted to what engine.go/node.go/nodehost.go permit (see NOTES.md)", bound),
		"the snapshotter below rsm.StateMachine is a stand-in that calls Save/Stream/Recover of the managed SM once without disk I/O",
	}
	var rp c11sReplay
	if run.LoadReplay(&rp) {
		sc := rp.Scenario
		var w *c11sWorld
		var first uint64
		for i := 0; i < 2; i++ {
			o := vsched.Replay(rp.Horizon, c11sSetup(&sc, &w), rp.Choices, func(o *vsched.Outcome) {
				finds, _ := w.judge(o)
				for k, d := range finds {
					res.Violate(k, d+" | scenario: "+sc.Name+" | schedule: "+o.Schedule(), rp)
				}
			})
			if i == 1 && o.Digest() != first {
				panic("replay is not deterministic")
			}
			first = o.Digest()
		}
		res.Evaluations = 1
		return
	}
	scs := c11sScenarios()
	minimal := map[string]int{}
	var tot vsched.Stats
	for si := range scs {
		sc := &scs[si]
		if f := os.Getenv("VERIF_SCENARIO"); f != "" && !strings.Contains(sc.Name, f) {
			continue
		}
		if run.Expired() {
			res.Cap("deadline reached before scenario " + sc.Name)
			break
		}
		var w *c11sWorld
		salt := verifkit.Hash64(sc.Name)
		st := vsched.Explore(vsched.Config{
			Bound: bound, Horizon: c11sHorizon, SplitDepth: 1, VerifyEvery: 499,
			Mine:    func(k uint64) bool { return run.Mine((k ^ salt) % 1000003) },
			Expired: run.Expired,
			Observe: func(o *vsched.Outcome) string {
				_, classes := w.judge(o)
				return strings.Join(classes, " ") + fmt.Sprint(w.errs)
			},
		}, c11sSetup(sc, &w), func(o *vsched.Outcome) bool {
			finds, classes := w.judge(o)
			res.Outcome(sc.Kind + " | " + strings.Join(classes, " "))
			ncalls := 0
			for _, n := range w.mon.calls {
				ncalls += n
			}
			if ncalls >= 2 && (o.Preemptions > 0 || len(w.mon.overlaps) > 0 || len(w.mon.finds) > 0) {
				res.DistinctNontrivial++
			}
			for k, d := range finds {
				score := o.Preemptions*10000 + o.Points
				if old, ok := minimal[k]; ok && old <= score {
					continue
				}
				minimal[k] = score
				rpl := c11sReplay{Scenario: *sc, Choices: append([]int(nil), o.Choices...), Schedule: o.Schedule(), Horizon: c11sHorizon}
				c11sReplaceViolation(res, k, d+" | scenario: "+sc.Name+fmt.Sprintf(" | %d preemption(s), schedule: %s", o.Preemptions, o.Schedule()), rpl)
			}
			return false
		})
		tot.Executions += st.Executions
		tot.Schedules += st.Schedules
		tot.Spine += st.Spine
		tot.Verified += st.Verified
		tot.Retries += st.Retries
		tot.Deadlocks += st.Deadlocks
		tot.Panics += st.Panics
		tot.Livelocks += st.Livelocks
		tot.TotalPoints += st.TotalPoints
		if st.MaxPoints > tot.MaxPoints {
			tot.MaxPoints = st.MaxPoints
		}
		for i := range st.ByPreempt {
			tot.ByPreempt[i] += st.ByPreempt[i]
		}
		if st.Capped {
			res.Cap("deadline reached inside scenario " + sc.Name)
			break
		}
		if run.Shard == 0 {
			res.Sample(3, map[string]interface{}{"scenario": sc.Name, "schedules_this_shard": st.Executions, "max_points": st.MaxPoints})
		}
	}
	if run.Shard != 0 {
		res.Sample(1, map[string]interface{}{"scenario": scs[run.Shard%len(scs)].Name})
	}
	res.Evaluations = tot.Executions
	if tot.Schedules != tot.Executions && res.NViolations() == 0 {
		panic(fmt.Sprintf("explorer executed a schedule twice: %d executions, %d distinct", tot.Executions, tot.Schedules))
	}
	res.Extra["max_scenarios"] = len(scs)
	res.Extra["executions"] = tot.Executions
	res.Extra["distinct_schedules"] = tot.Schedules
	res.Extra["spine_executions"] = tot.Spine
	res.Extra["replay_verified"] = tot.Verified
	res.Extra["divergence_retries"] = tot.Retries
	res.Extra["max_points"] = tot.MaxPoints
	res.Extra["scheduling_points"] = tot.TotalPoints
	res.Extra["deadlocks"] = tot.Deadlocks
	res.Extra["panics"] = tot.Panics
	res.Extra["livelocks"] = tot.Livelocks
	for i := 0; i <= bound; i++ {
		res.Extra[fmt.Sprintf("schedules_with_%d_preemptions", i)] = tot.ByPreempt[i]
	}
	res.Extra["max_preemption_bound"] = bound
}

func c11sReplaceViolation(res *verifkit.Result, key, desc string, replay interface{}) {
	for i := range res.Violations {
		if res.Violations[i].Key == key {
			res.Violations[i].Desc = desc
			res.Violations[i].Replay = replay
			return
		}
	}
	res.MaxViolations = 1 << 30
	res.Violate(key, desc, replay)
}

// ---------------------------------------------------------------- race part

var c11sRaceBlock = regexp.MustCompile(`(?s)WARNING: DATA RACE\n(.*?)\n==================`)
var c11sRaceFrame = regexp.MustCompile(`(?m)^  ([^\s].*)\(\)\n\s+(\S+):(\d+)`)
var c11sRaceHead = regexp.MustCompile(`(?m)^(?:Previous )?(?:[Rr]ead|[Ww]rite|atomic [a-z]+) at .*$`)

// c11sRaceKeys: for every race report the first frames of the two accesses
// that are dragonboat code (the instrumented user SM counts: a race on its
// variables IS the contract violation, reported with the user method names).
func c11sRaceKeys(out string) map[string]string {
	keys := map[string]string{}
	for _, m := range c11sRaceBlock.FindAllStringSubmatch(out, -1) {
		block := m[1]
		parts := c11sRaceHead.Split(block, -1)
		var fns []string
		for _, p := range parts[1:] {
			if i := strings.Index(p, "\n\n"); i >= 0 {
				p = p[:i]
			}
			fn := c11sRaceSite(p)
			fns = append(fns, fn)
		}
		sort.Strings(fns)
		k := "race/" + strings.Join(fns, "|")
		if _, ok := keys[k]; !ok {
			if len(block) > 3000 {
				block = block[:3000]
			}
			keys[k] = block
		}
	}
	return keys
}

var c11sUserFrame = regexp.MustCompile(`\(\*c11s(Plain|Conc|Disk)SM\)\.(\w+)`)
var c11sAdapterFrame = regexp.MustCompile(`\(\*(InMemStateMachine|ConcurrentStateMachine|OnDiskStateMachine)\)\.(\w+)`)

// c11sRaceSite names one side of a race report: an access made by the
// instrumented user state machine is named "<kind>-sm.<UserMethod>" (stable,
// independent of inlining), any other access by its first dragonboat frame.
func c11sRaceSite(stack string) string {
	frames := c11sRaceFrame.FindAllStringSubmatch(stack, -1)
	if len(frames) > 0 && strings.Contains(frames[0][1], "c11sMon") {
		kinds := map[string]string{"Plain": "plain", "Conc": "concurrent", "Disk": "ondisk",
			"InMemStateMachine": "plain", "ConcurrentStateMachine": "concurrent", "OnDiskStateMachine": "ondisk"}
		meth := map[string]string{"Save": "SaveSnapshot", "Recover": "RecoverFromSnapshot", "Prepare": "PrepareSnapshot"}
		for _, f := range frames {
			if m := c11sUserFrame.FindStringSubmatch(f[1]); m != nil {
				return kinds[m[1]] + "-sm." + m[2]
			}
			if m := c11sAdapterFrame.FindStringSubmatch(f[1]); m != nil {
				name := m[2]
				if v, ok := meth[name]; ok {
					name = v
				}
				return kinds[m[1]] + "-sm." + name
			}
		}
		return "user-sm.?"
	}
	for _, f := range frames {
		name := f[1]
		if strings.Contains(name, "verifkit/") || strings.HasPrefix(name, "sync") || strings.HasPrefix(name, "runtime") {
			continue
		}
		name = strings.TrimPrefix(name, "github.com/lni/dragonboat/v4/")
		if i := strings.Index(name, ".func"); i > 0 && strings.Contains(name, "c11s") {
			name = name[:i]
		}
		return name
	}
	return "?"
}

func TestVerifC11SRace(t *testing.T) {
	c11sQuiet()
	scs := c11sScenarios()
	if os.Getenv("VERIF_RACE_CHILD") == "1" {
		iters := 0
		fmt.Sscan(os.Getenv("VERIF_RACE_ITERS"), &iters)
		panics := map[string]int{}
		n := 0
		for n < iters {
			for si := range scs {
				var w *c11sWorld
				if msg := vsched.RunFree(c11sSetup(&scs[si], &w)); msg != "" {
					panics[c11sNum.ReplaceAllString(msg, "N")]++
				}
				n++
			}
		}
		for k, v := range panics {
			fmt.Printf("RACECHILD-PANIC %d %s\n", v, k)
		}
		fmt.Printf("RACECHILD iterations=%d\n", n)
		return
	}
	run := verifkit.Env()
	res := verifkit.NewResult()
	defer c11sFinish(run, res)
	iters := run.Pick(10000, 100000)
	res.Rule = "case = one free-running execution (real sync primitives, Go race detector) of one thread scenario of the sched part; the instrumented user state machine touches plain variables so that a forbidden overlap IS a data race; non-trivial = every one"
	res.Assumptions = []string{"race part: schedules are whatever the Go runtime produces (not enumerated); it only adds data-race detection to the sched part"}
	cmd := exec.Command(os.Args[0], "-test.run", "^TestVerifC11SRace$", "-test.count", "1", "-test.timeout", "0")
	cmd.Env = append(os.Environ(), "VERIF_RACE_CHILD=1", fmt.Sprintf("VERIF_RACE_ITERS=%d", iters), "GORACE=halt_on_error=0", "VERIF_OUT=", "GOMAXPROCS=4")
	var buf bytes.Buffer
	cmd.Stdout = &buf
	cmd.Stderr = &buf
	err := cmd.Run()
	out := buf.String()
	m := regexp.MustCompile(`RACECHILD iterations=(\d+)`).FindStringSubmatch(out)
	if m == nil {
		panic(fmt.Sprintf("race child did not finish: %v\n%s", err, out[max(0, len(out)-4000):]))
	}
	var n int64
	fmt.Sscan(m[1], &n)
	res.Evaluations = n
	res.DistinctNontrivial = n
	res.Extra["race_iterations"] = n
	res.Sample(2, map[string]interface{}{"scenario": scs[0].Name, "mode": "free-running -race"})
	keys := c11sRaceKeys(out)
	res.Extra["race_reports"] = len(keys)
	for k, block := range keys {
		res.Outcome(k)
		res.Violate(k, "the Go race detector reported a data race while the scenario threads ran free:\n"+block, map[string]string{"race": k})
	}
	for _, pm := range regexp.MustCompile(`RACECHILD-PANIC (\d+) (.*)`).FindAllStringSubmatch(out, -1) {
		res.Outcome("panic:" + pm[2])
		res.Violate("panic/"+pm[2], "a thread panicked in a free-running execution: "+pm[2], map[string]string{"race": "panic/" + pm[2]})
	}
	if len(keys) == 0 {
		res.Outcome("no-race")
	}
}
