//go:build verif

package raft

import (
	"fmt"
	"github.com/lni/dragonboat/v4/internal/verifkit"
	pb "github.com/lni/dragonboat/v4/raftpb"
)

// VPeer gives the external verif harness white-box access to a Peer.
type VPeer struct{ P *Peer }

// Role names used by the harness.
const (
	VFollower         = uint64(follower)
	VCandidate        = uint64(candidate)
	VPreVoteCandidate = uint64(preVoteCandidate)
	VLeader           = uint64(leader)
	VNonVoting        = uint64(nonVoting)
	VWitness          = uint64(witness)
)

func (v VPeer) r() *raft             { return v.P.raft }
func (v VPeer) Role() uint64         { return uint64(v.r().state) }
func (v VPeer) Term() uint64         { return v.r().term }
func (v VPeer) Vote() uint64         { return v.r().vote }
func (v VPeer) LeaderID() uint64     { return v.r().leaderID }
func (v VPeer) Committed() uint64    { return v.r().log.committed }
func (v VPeer) Processed() uint64    { return v.r().log.processed }
func (v VPeer) Applied() uint64      { return v.r().applied }
func (v VPeer) LastIndex() uint64    { return v.r().log.lastIndex() }
func (v VPeer) FirstIndex() uint64   { return v.r().log.firstIndex() }
func (v VPeer) Quorum() int          { return v.r().quorum() }
func (v VPeer) IsLeader() bool       { return v.r().isLeader() }
func (v VPeer) SelfRemoved() bool    { return v.r().selfRemoved() }
func (v VPeer) PendingCC() bool      { return v.r().pendingConfigChange }
func (v VPeer) Transferring() bool   { return v.r().leaderTransfering() }
func (v VPeer) HasPendingRead() bool { return v.r().readIndex.hasPendingRequest() }
func (v VPeer) NumMsgs() int         { return len(v.r().msgs) }

// LogTerm returns the term at index (0 when unknown).
func (v VPeer) LogTerm(i uint64) uint64 {
	t, err := v.r().log.term(i)
	if err != nil {
		return 0
	}
	return t
}

// LogEntries returns all available entries in [lo, hi].
func (v VPeer) LogEntries(lo, hi uint64) []pb.Entry {
	if lo > hi {
		return nil
	}
	ents, err := v.r().log.getEntries(lo, hi+1, ^uint64(0))
	if err != nil {
		return nil
	}
	return ents
}

// Members returns sorted ids of voters, non-votings and witnesses known to raft.
func (v VPeer) Members() (voters, nonVotings, witnesses []uint64) {
	r := v.r()
	for id := range r.remotes {
		voters = append(voters, id)
	}
	for id := range r.nonVotings {
		nonVotings = append(nonVotings, id)
	}
	for id := range r.witnesses {
		witnesses = append(witnesses, id)
	}
	sortU(voters)
	sortU(nonVotings)
	sortU(witnesses)
	return
}

// Match returns the match index the leader recorded for id (voters+witnesses).
func (v VPeer) Match(id uint64) (uint64, bool) {
	r := v.r()
	if rp, ok := r.remotes[id]; ok {
		return rp.match, true
	}
	if rp, ok := r.witnesses[id]; ok {
		return rp.match, true
	}
	return 0, false
}

// VotesGranted returns ids that granted their vote to this candidate.
func (v VPeer) VotesGranted() []uint64 {
	var out []uint64
	for id, ok := range v.r().votes {
		if ok {
			out = append(out, id)
		}
	}
	sortU(out)
	return out
}

func sortU(s []uint64) {
	for i := 1; i < len(s); i++ {
		for j := i; j > 0 && s[j] < s[j-1]; j-- {
			s[j], s[j-1] = s[j-1], s[j]
		}
	}
}

// ForceElectionTimeout makes the next Tick an election timeout (non leaders).
func (v VPeer) ForceElectionTimeout() {
	r := v.r()
	if r.randomizedElectionTimeout == 0 {
		r.randomizedElectionTimeout = r.electionTimeout
	}
	r.electionTick = r.randomizedElectionTimeout - 1
}

// ForceCheckQuorumTimeout makes the next Tick on a leader a check-quorum /
// leader-transfer-abort point.
func (v VPeer) ForceCheckQuorumTimeout() {
	r := v.r()
	r.electionTick = r.electionTimeout - 1
}

// ForceHeartbeatTimeout makes the next Tick on a leader send heartbeats.
func (v VPeer) ForceHeartbeatTimeout() {
	r := v.r()
	r.heartbeatTick = r.heartbeatTimeout - 1
}

// ExpireLease makes a non-leader consider its leader lease expired
// (electionTick >= electionTimeout) without campaigning.
func (v VPeer) ExpireLease() {
	r := v.r()
	r.randomizedElectionTimeout = 2*r.electionTimeout - 1
	if r.electionTick < r.electionTimeout {
		r.electionTick = r.electionTimeout
	}
}

// LeaseExpired reports electionTick >= electionTimeout.
func (v VPeer) LeaseExpired() bool {
	r := v.r()
	return r.electionTick >= r.electionTimeout
}

// Normalize removes the tick counters' concrete values: time is abstracted to
// {fresh, lease expired}; randomizedElectionTimeout is made a constant.
func (v VPeer) Normalize() {
	r := v.r()
	r.randomizedElectionTimeout = 2*r.electionTimeout - 1
	r.tickCount = 1
	r.heartbeatTick = 0
	if r.isLeader() {
		r.electionTick = 0
	} else if r.electionTick >= r.electionTimeout {
		r.electionTick = r.electionTimeout
	} else {
		r.electionTick = 0
	}
}

// SetElectionTimeoutValue sets a concrete randomized election timeout (used by
// the deterministic fair suffix of C17).
func (v VPeer) SetElectionTimeoutValue(t uint64) { v.r().randomizedElectionTimeout = t }

var vSkip = map[string]bool{
	"raft.handlers": true, "raft.events": true, "raft.hasNotAppliedConfigChange": true,
	"raft.handle": true, "raft.rl": true, "raft.prevLeader": true, "raft.matched": true,
	"raft.tickCount": true, "entryLog.logdb": true, "inMemory.rl": true,
	"Snapshot.refCount": true, "Snapshot.compactor": true,
}

// Canon appends a canonical description of the whole raft state.
func (v VPeer) Canon(c *verifkit.CanonBuf) {
	r := v.r()
	verifkit.ReflectCanon(c, r, vSkip)
	c.U(v.P.prevState.Term, v.P.prevState.Vote, v.P.prevState.Commit)
	if r.rl.Enabled() {
		// the in-memory log rate limiter is state only when it is switched on
		verifkit.ReflectCanon(c, r.rl, nil)
	}
	// cap/len of the in-memory slice matters only through resize decisions
	c.Bool(r.log.inmem.shrunk)
}

// RateLimited reports whether raft's in-memory log rate limiter is on and
// currently limiting (read without side effects: the stored flag).
func (v VPeer) RateLimitInfo() string {
	r := v.r()
	if !r.rl.Enabled() {
		return ""
	}
	return fmt.Sprintf("rl(size=%d tick=%d)", r.rl.Get(), r.rl.GetTick())
}

// RemoteState returns the replication state name the leader holds for id.
func (v VPeer) RemoteState(id uint64) string {
	r := v.r()
	rp, ok := r.remotes[id]
	if !ok {
		if rp, ok = r.nonVotings[id]; !ok {
			if rp, ok = r.witnesses[id]; !ok {
				return ""
			}
		}
	}
	return rp.state.String()
}
