//go:build verif

// Overlaid into internal/transport for harnesses that need "what a sender puts
// on the wire for this InstallSnapshot message" (never present in /repo). The
// message goes through the REAL Transport.SendSnapshot (split into chunks, job
// lane, chunk loading, deployment id) of a Transport whose network plug-in
// records the chunks. Only exported entry points and the plug-in interface are
// used; the one private identifier is the job counter, read to wait for the
// lane to shut down.
package transport

import (
	"context"
	"fmt"
	"runtime"
	"sync/atomic"
	"time"

	"github.com/lni/dragonboat/v4/config"
	"github.com/lni/dragonboat/v4/internal/registry"
	"github.com/lni/dragonboat/v4/internal/server"
	"github.com/lni/dragonboat/v4/internal/settings"
	"github.com/lni/dragonboat/v4/internal/vfs"
	"github.com/lni/dragonboat/v4/raftio"
	pb "github.com/lni/dragonboat/v4/raftpb"
)

type verifSendCompactor struct{}

func (verifSendCompactor) Compact(uint64) error { return nil }

type verifSendHandler struct{ done chan bool }

func (h *verifSendHandler) HandleMessageBatch(pb.MessageBatch) (uint64, uint64) { return 0, 0 }
func (h *verifSendHandler) HandleUnreachable(uint64, uint64)                     {}
func (h *verifSendHandler) HandleSnapshotStatus(_ uint64, _ uint64, rejected bool) {
	h.done <- rejected
}
func (h *verifSendHandler) HandleSnapshot(uint64, uint64, uint64) {}

type verifSendEvents struct{}

func (verifSendEvents) ConnectionEstablished(string, bool) {}
func (verifSendEvents) ConnectionFailed(string, bool)      {}

type verifRecFactory struct{ out *[]pb.Chunk }

func (f *verifRecFactory) Create(config.NodeHostConfig, raftio.MessageHandler, raftio.ChunkHandler) raftio.ITransport {
	return &verifRecTrans{out: f.out}
}
func (f *verifRecFactory) Validate(string) bool { return true }

type verifRecTrans struct{ out *[]pb.Chunk }

func (g *verifRecTrans) Name() string { return "verif-recorder" }
func (g *verifRecTrans) Start() error { return nil }
func (g *verifRecTrans) Close() error { return nil }
func (g *verifRecTrans) GetConnection(context.Context, string) (raftio.IConnection, error) {
	return nil, fmt.Errorf("no message connections in this harness")
}
func (g *verifRecTrans) GetSnapshotConnection(context.Context, string) (raftio.ISnapshotConnection, error) {
	return &verifRecConn{out: g.out}, nil
}

type verifRecConn struct{ out *[]pb.Chunk }

func (c *verifRecConn) Close() {}
func (c *verifRecConn) SendChunk(chunk pb.Chunk) error {
	// what reaches the wire: an independent copy
	data := pb.MustMarshal(&chunk)
	var w pb.Chunk
	pb.MustUnmarshal(&w, data)
	*c.out = append(*c.out, w)
	return nil
}

// VerifSendSnapshot returns the chunks a sender with deployment id did puts on
// the wire for the InstallSnapshot message m whose files live on fs.
func VerifSendSnapshot(m pb.Message, did uint64, fs vfs.IFS) ([]pb.Chunk, error) {
	var out []pb.Chunk
	h := &verifSendHandler{done: make(chan bool, 8)}
	c := config.NodeHostConfig{RaftAddress: "verif-sender:1", DeploymentID: did,
		Expert: config.ExpertConfig{TransportFactory: &verifRecFactory{out: &out}}}
	env, err := server.NewEnv(c, fs)
	if err != nil {
		return nil, err
	}
	defer env.Close()
	nodes := registry.NewNodeRegistry(settings.Soft.StreamConnections, nil)
	dir := func(shardID uint64, replicaID uint64) string {
		return fmt.Sprintf("/verif-sender-snapshot-%d-%d", shardID, replicaID)
	}
	t, err := NewTransport(c, h, env, nodes, dir, verifSendEvents{}, fs)
	if err != nil {
		return nil, err
	}
	nodes.Add(m.ShardID, m.To, "verif-receiver:1")
	// the sender drops one reference when it is done with the message
	func() {
		defer func() {
			if r := recover(); r != nil {
				m.Snapshot.Ref() // already loaded by the caller
			}
		}()
		m.Snapshot.Load(verifSendCompactor{})
	}()
	if !t.SendSnapshot(m) {
		_ = t.Close()
		return nil, fmt.Errorf("Transport.SendSnapshot refused the message")
	}
	var rejected bool
	select {
	case rejected = <-h.done:
	case <-time.After(300 * time.Second):
		panic("harness: the sender did not finish")
	}
	for i := 0; atomic.LoadUint64(&t.jobs) != 0; i++ {
		runtime.Gosched()
		if i > 1<<26 {
			panic("harness: snapshot job lane did not shut down")
		}
	}
	if err := t.Close(); err != nil {
		return nil, err
	}
	if rejected {
		return nil, fmt.Errorf("the sender reported a failed transfer over a healthy recording connection")
	}
	return out, nil
}
