//go:build verif

// Overlaid into internal/transport for the nodex harnesses (never present in
// /repo): a REAL streaming job + Sink whose connection is the harness network.
// node.getStreamSink needs a *transport.Sink, whose job field is private.
package transport

import (
	"context"
	"time"

	pb "github.com/lni/dragonboat/v4/raftpb"
)

type verifConn struct{ recv func(pb.Chunk) error }

func (c verifConn) Close()                         {}
func (c verifConn) SendChunk(chunk pb.Chunk) error { return c.recv(chunk) }

// VerifNewSink builds the Sink that Transport.GetStreamSink would return: a
// real streaming job (job.streamSnapshot drains the chunks the ChunkWriter
// queues through Sink.Receive and stamps the deployment id) over a connection
// that hands every chunk to recv. wait blocks until the job's loop has ended
// and reports whether the stream failed (what the transport then reports
// through HandleSnapshotStatus).
func VerifNewSink(shardID uint64, replicaID uint64, did uint64, recv func(pb.Chunk) error) (*Sink, func() bool) {
	stopc := make(chan struct{})
	j := newJob(context.Background(), shardID, replicaID, did, true, 0, nil, stopc, nil)
	j.conn = verifConn{recv: recv}
	done := make(chan error, 1)
	go func() {
		err := j.process()
		done <- err
	}()
	return &Sink{j: j}, func() bool {
		select {
		case err := <-done:
			return err != nil
		case <-time.After(120 * time.Second):
			panic("harness: streaming job did not end")
		}
	}
}
