//go:build verif

package raft

import (
	"github.com/lni/dragonboat/v4/internal/server"
	pb "github.com/lni/dragonboat/v4/raftpb"
)

// VLog gives the external verif harness white-box access to entryLog.
type VLog struct{ l *entryLog }

// VSetSliceSizes shrinks the in-memory slice sizes so resize paths trigger.
func VSetSliceSizes(entry uint64, min uint64) {
	entrySliceSize = entry
	minEntrySliceSize = min
}

func VNewLog(db ILogDB) *VLog {
	return &VLog{l: newEntryLog(db, server.NewInMemRateLimiter(0))}
}

func (v *VLog) FirstIndex() uint64                  { return v.l.firstIndex() }
func (v *VLog) LastIndex() uint64                   { return v.l.lastIndex() }
func (v *VLog) Term(i uint64) (uint64, error)       { return v.l.term(i) }
func (v *VLog) Committed() uint64                   { return v.l.committed }
func (v *VLog) Processed() uint64                   { return v.l.processed }
func (v *VLog) EntriesToSave() []pb.Entry           { return v.l.entriesToSave() }
func (v *VLog) EntriesToApply() ([]pb.Entry, error) { return v.l.entriesToApply() }
func (v *VLog) HasEntriesToApply() bool             { return v.l.hasEntriesToApply() }
func (v *VLog) Append(ents []pb.Entry)              { v.l.append(ents) }
func (v *VLog) CommitTo(i uint64)                   { v.l.commitTo(i) }
func (v *VLog) CommitUpdate(cu pb.UpdateCommit)     { v.l.commitUpdate(cu) }
func (v *VLog) Restore(ss pb.Snapshot)              { v.l.restore(ss) }
func (v *VLog) MatchTerm(i, t uint64) (bool, error) { return v.l.matchTerm(i, t) }
func (v *VLog) UpToDate(i, t uint64) (bool, error)  { return v.l.upToDate(i, t) }
func (v *VLog) TryCommit(i, t uint64) (bool, error) { return v.l.tryCommit(i, t) }
func (v *VLog) GetEntries(lo, hi, max uint64) ([]pb.Entry, error) {
	return v.l.getEntries(lo, hi, max)
}
func (v *VLog) Entries(start, max uint64) ([]pb.Entry, error) { return v.l.entries(start, max) }
func (v *VLog) TryAppend(index uint64, ents []pb.Entry) (bool, error) {
	return v.l.tryAppend(index, ents)
}
func (v *VLog) InmemSnapshot() *pb.Snapshot { return v.l.inmem.snapshot }

// InmemShape describes the implementation-only state of the in-memory window.
func (v *VLog) InmemShape() (marker, savedTo, n, free, appliedTo uint64, shrunk bool) {
	im := &v.l.inmem
	return im.markerIndex, im.savedTo, uint64(len(im.entries)),
		uint64(cap(im.entries) - len(im.entries)), im.appliedToIndex, im.shrunk
}

// VGetUpdateCommit exposes getUpdateCommit.
func VGetUpdateCommit(ud pb.Update) pb.UpdateCommit { return getUpdateCommit(ud) }

// VValidateUpdate runs the Peer level update validation.
func VValidateUpdate(ud pb.Update) { validateUpdate(ud) }
