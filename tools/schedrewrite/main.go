// schedrewrite: generate step of the E5 (schedx) checks.
//
// For every given source file (path relative to the repository root) it writes
// a copy into <work>/schedx/ in which ONLY the import specs "sync" and
// "sync/atomic" are replaced by aliased imports of the verifkit shims
//
//	sync "github.com/lni/dragonboat/v4/internal/verifkit/vsync"
//	atomic "github.com/lni/dragonboat/v4/internal/verifkit/vatomic"
//
// (the alias keeps every line below the import block byte-identical), and it
// merges "<repo-relative path>": "<generated file>" into
// <work>/overlay.gen.json, which the /verif/check driver adds to the build
// overlay. For files listed with -yield it additionally inserts
// "vsched.Yield(); " in front of every statement that contains a channel
// send, receive, select or close (go/ast based; the insertion is made on the
// same line, so line numbers do not move) and imports vsched.
//
// The copies are regenerated from the CURRENT repository file on every run.
// The tool fails loudly (exit 1) when a file has neither import (missing
// anchor), when one of the imports is already aliased, or when -yield is
// requested for a file without channel operations.
//
// For files listed with -engine (implies -yield) the imports "time", "reflect"
// and "github.com/lni/goutils/syncutil" are redirected as well (vtime,
// vreflect, vsyncutil), and every BLOCKING channel statement gets a scheduler
// wait in front of it instead of a plain yield: a select without default
// becomes
//
//	vsched.SelectWait(vsched.R(a), vsched.S(b)); select { case <-vsched.Pick(0, a): ... case vsched.PickS(1, b) <- x: ... }
//
// (the thread is disabled until a case is ready; Pick leaves only the first
// ready case selectable, so the runtime's random choice among ready cases is
// replaced by a deterministic one), and a plain send / receive statement gets
// vsched.ChanWait(...). All insertions stay on the original line.
//
// usage: go run main.go -repo /repo -work $VERIF_WORK [-yield a.go,b.go] [-engine c.go] file...
package main

import (
	"encoding/json"
	"flag"
	"fmt"
	"go/ast"
	"go/parser"
	"go/token"
	"os"
	"path/filepath"
	"sort"
	"strings"
)

const (
	kit    = "github.com/lni/dragonboat/v4/internal/verifkit/"
	vsync  = `sync "` + kit + `vsync"`
	vatom  = `atomic "` + kit + `vatomic"`
	vsched = `vsched "` + kit + `vsched"`
)

type splice struct {
	off, end int // replace [off,end)
	text     string
}

func fail(format string, a ...interface{}) {
	fmt.Fprintf(os.Stderr, "schedrewrite: "+format+"\n", a...)
	os.Exit(1)
}

func main() {
	repo := flag.String("repo", os.Getenv("VERIF_REPO"), "repository root")
	work := flag.String("work", os.Getenv("VERIF_WORK"), "work directory")
	yield := flag.String("yield", "", "comma separated files (of the list) that get vsched.Yield() before channel operations")
	engine := flag.String("engine", "", "comma separated files (of the list) that additionally get time/reflect/syncutil shims and waits before blocking channel statements")
	flag.Parse()
	if *repo == "" || *work == "" || flag.NArg() == 0 {
		fail("need -repo, -work and at least one file")
	}
	yl := map[string]bool{}
	for _, f := range strings.Split(*yield, ",") {
		if f != "" {
			yl[f] = true
		}
	}
	el := map[string]bool{}
	for _, f := range strings.Split(*engine, ",") {
		if f != "" {
			el[f] = true
			yl[f] = true
		}
	}
	outDir := filepath.Join(*work, "schedx")
	if err := os.MkdirAll(outDir, 0o755); err != nil {
		fail("%v", err)
	}
	gen := map[string]string{}
	genPath := filepath.Join(*work, "overlay.gen.json")
	if data, err := os.ReadFile(genPath); err == nil {
		if err := json.Unmarshal(data, &gen); err != nil {
			fail("bad %s: %v", genPath, err)
		}
	}
	for f := range yl {
		found := false
		for _, a := range flag.Args() {
			if a == f {
				found = true
			}
		}
		if !found {
			fail("-yield file %s is not in the file list", f)
		}
	}
	for _, rel := range flag.Args() {
		src := filepath.Join(*repo, rel)
		data, err := os.ReadFile(src)
		if err != nil {
			fail("cannot read target %s: %v", src, err)
		}
		out, nImp, nYield := rewrite(rel, data, yl[rel], el[rel])
		dst := filepath.Join(outDir, strings.ReplaceAll(rel, "/", "__"))
		if err := os.WriteFile(dst, out, 0o644); err != nil {
			fail("%v", err)
		}
		// the result must still parse
		if _, err := parser.ParseFile(token.NewFileSet(), dst, out, 0); err != nil {
			fail("generated file does not parse: %v", err)
		}
		gen[rel] = dst
		fmt.Printf("schedrewrite: %s: %d import(s) redirected, %d yield(s) inserted\n", rel, nImp, nYield)
	}
	data, _ := json.MarshalIndent(gen, "", " ")
	if err := os.WriteFile(genPath, data, 0o644); err != nil {
		fail("%v", err)
	}
}

func rewrite(rel string, data []byte, withYield bool, engine bool) ([]byte, int, int) {
	fset := token.NewFileSet()
	file, err := parser.ParseFile(fset, rel, data, parser.ParseComments)
	if err != nil {
		fail("cannot parse %s: %v", rel, err)
	}
	tf := fset.File(file.Pos())
	var sp []splice
	nImp := 0
	var firstImp *ast.ImportSpec
	for _, is := range file.Imports {
		var repl string
		switch is.Path.Value {
		case `"sync"`:
			repl = vsync
		case `"sync/atomic"`:
			repl = vatom
		case `"time"`:
			if !engine {
				continue
			}
			repl = `time "` + kit + `vtime"`
		case `"reflect"`:
			if !engine {
				continue
			}
			repl = `reflect "` + kit + `vreflect"`
		case `"github.com/lni/goutils/syncutil"`:
			if !engine {
				continue
			}
			repl = `syncutil "` + kit + `vsyncutil"`
		case `"` + kit + `vsync"`, `"` + kit + `vatomic"`, `"` + kit + `vsched"`:
			fail("%s already imports a verifkit shim", rel)
		default:
			continue
		}
		if is.Name != nil {
			fail("%s: import %s is aliased (%s): the rewriter only handles the plain form", rel, is.Path.Value, is.Name.Name)
		}
		if firstImp == nil {
			firstImp = is
		}
		sp = append(sp, splice{tf.Offset(is.Path.Pos()), tf.Offset(is.Path.End()), repl})
		nImp++
	}
	if nImp == 0 {
		fail("ANCHOR MISSING: %s imports neither \"sync\" nor \"sync/atomic\" any more; update the file list of the check", rel)
	}
	for _, id := range []string{"vsched"} {
		if withYield && file.Scope.Lookup(id) != nil {
			fail("%s declares %s at package level", rel, id)
		}
	}
	nYield := 0
	if withYield {
		offs := yieldOffsets(file, tf)
		if len(offs) == 0 {
			fail("ANCHOR MISSING: -yield requested for %s but it contains no channel operation", rel)
		}
		waits := map[int]string{}
		if engine {
			var extra []splice
			waits, extra = blockingWaits(file, tf, data)
			sp = append(sp, extra...)
		}
		for _, o := range offs {
			sp = append(sp, splice{o, o, "vsched.Yield(); " + waits[o]})
			delete(waits, o)
		}
		if len(waits) != 0 {
			fail("%s: blocking channel statement that is not a yield site: %v", rel, waits)
		}
		nYield = len(offs)
		// import vsched on the line of the first redirected import; a lone
		// `import "sync"` (no parentheses) cannot take a second spec
		parenthesised := false
		for _, d := range file.Decls {
			if gd, ok := d.(*ast.GenDecl); ok && gd.Tok == token.IMPORT && gd.Lparen.IsValid() {
				for _, s := range gd.Specs {
					if s == ast.Spec(firstImp) {
						parenthesised = true
					}
				}
			}
		}
		if !parenthesised {
			fail("%s: import %s is not inside a parenthesised import block; cannot add the vsched import", rel, firstImp.Path.Value)
		}
		for i := range sp {
			if sp[i].off == tf.Offset(firstImp.Path.Pos()) && sp[i].end > sp[i].off {
				sp[i].text += "; " + vsched
			}
		}
	}
	sort.SliceStable(sp, func(i, j int) bool { return sp[i].off < sp[j].off })
	var out []byte
	last := 0
	for _, s := range sp {
		if s.off < last {
			fail("%s: overlapping splices", rel)
		}
		out = append(out, data[last:s.off]...)
		out = append(out, s.text...)
		last = s.end
	}
	out = append(out, data[last:]...)
	return out, nImp, nYield
}

// yieldOffsets returns the byte offsets of the statements (elements of a
// statement list) that contain a channel operation.
func yieldOffsets(file *ast.File, tf *token.File) []int {
	seen := map[int]bool{}
	var stack []ast.Node
	isListElem := func(j int) bool {
		if j < 1 {
			return false
		}
		st, ok := stack[j].(ast.Stmt)
		if !ok {
			return false
		}
		switch p := stack[j-1].(type) {
		case *ast.BlockStmt:
			if j >= 2 {
				switch stack[j-2].(type) {
				case *ast.SelectStmt, *ast.SwitchStmt, *ast.TypeSwitchStmt:
					return false
				}
			}
			return true
		case *ast.CaseClause:
			for _, b := range p.Body {
				if b == st {
					return true
				}
			}
		case *ast.CommClause:
			for _, b := range p.Body {
				if b == st {
					return true
				}
			}
		}
		return false
	}
	mark := func() {
		for j := len(stack) - 1; j >= 1; j-- {
			if isListElem(j) {
				seen[tf.Offset(stack[j].Pos())] = true
				return
			}
		}
		fail("channel operation at %v is not inside a statement list", tf.Position(stack[len(stack)-1].Pos()))
	}
	ast.Inspect(file, func(n ast.Node) bool {
		if n == nil {
			stack = stack[:len(stack)-1]
			return true
		}
		stack = append(stack, n)
		switch x := n.(type) {
		case *ast.SendStmt, *ast.SelectStmt:
			mark()
		case *ast.UnaryExpr:
			if x.Op == token.ARROW {
				mark()
			}
		case *ast.CallExpr:
			if id, ok := x.Fun.(*ast.Ident); ok && id.Name == "close" && len(x.Args) == 1 {
				mark()
			}
		}
		return true
	})
	var offs []int
	for o := range seen {
		offs = append(offs, o)
	}
	sort.Ints(offs)
	return offs
}

// blockingWaits returns, per statement offset (the same offsets yieldOffsets
// marks), the wait call to insert, plus the Pick splices inside selects.
func blockingWaits(file *ast.File, tf *token.File, data []byte) (map[int]string, []splice) {
	waits := map[int]string{}
	var sp []splice
	src := func(e ast.Expr) string { return string(data[tf.Offset(e.Pos()):tf.Offset(e.End())]) }
	inSelectComm := map[ast.Node]bool{}
	// statement-list membership: a plain send / receive statement directly in a block
	var visitList func(list []ast.Stmt)
	recvOf := func(st ast.Stmt) ast.Expr {
		switch x := st.(type) {
		case *ast.ExprStmt:
			if u, ok := x.X.(*ast.UnaryExpr); ok && u.Op == token.ARROW {
				return u.X
			}
		case *ast.AssignStmt:
			if len(x.Rhs) == 1 {
				if u, ok := x.Rhs[0].(*ast.UnaryExpr); ok && u.Op == token.ARROW {
					return u.X
				}
			}
		}
		return nil
	}
	visitList = func(list []ast.Stmt) {
		for _, st := range list {
			off := tf.Offset(st.Pos())
			switch x := st.(type) {
			case *ast.SelectStmt:
				hasDefault := false
				for _, c := range x.Body.List {
					if c.(*ast.CommClause).Comm == nil {
						hasDefault = true
					}
				}
				for _, c := range x.Body.List {
					cc := c.(*ast.CommClause)
					if cc.Comm != nil {
						inSelectComm[cc.Comm] = true
					}
				}
				if hasDefault {
					continue
				}
				var args []string
				for i, c := range x.Body.List {
					cc := c.(*ast.CommClause)
					if snd, ok := cc.Comm.(*ast.SendStmt); ok {
						args = append(args, "vsched.S("+src(snd.Chan)+")")
						sp = append(sp, splice{tf.Offset(snd.Chan.Pos()), tf.Offset(snd.Chan.Pos()), fmt.Sprintf("vsched.PickS(%d, ", i)})
						sp = append(sp, splice{tf.Offset(snd.Chan.End()), tf.Offset(snd.Chan.End()), ")"})
					} else if ch := recvOf(cc.Comm); ch != nil {
						args = append(args, "vsched.R("+src(ch)+")")
						sp = append(sp, splice{tf.Offset(ch.Pos()), tf.Offset(ch.Pos()), fmt.Sprintf("vsched.Pick(%d, ", i)})
						sp = append(sp, splice{tf.Offset(ch.End()), tf.Offset(ch.End()), ")"})
					} else {
						fail("unsupported comm clause at %v", tf.Position(cc.Pos()))
					}
				}
				waits[off] = "vsched.SelectWait(" + strings.Join(args, ", ") + "); "
			case *ast.SendStmt:
				waits[off] = "vsched.ChanWait(vsched.S(" + src(x.Chan) + ")); "
			default:
				if ch := recvOf(st); ch != nil {
					waits[off] = "vsched.ChanWait(vsched.R(" + src(ch) + ")); "
				}
			}
		}
	}
	ast.Inspect(file, func(n ast.Node) bool {
		switch x := n.(type) {
		case *ast.BlockStmt:
			visitList(x.List)
		case *ast.CaseClause:
			visitList(x.Body)
		case *ast.CommClause:
			visitList(x.Body)
		case *ast.RangeStmt:
			// `for range ch` cannot be recognised without type information; the
			// engine files do not use it (a channel range would block for real)
		}
		return true
	})
	return waits, sp
}
