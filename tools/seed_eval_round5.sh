#!/bin/bash
# Fifth, partial round of independently seeded defects (n = 7, 8; C02 C03 C04 C05 C06 C07 C09 C10).
cd /verif
restore() { local d=/tmp/seedwork-$1/$2; if [ ! -f $d/patch.diff ]; then mkdir -p $d; cp seeded/$1-$2/patch.diff seeded/$1-$2/demo_test.go seeded/$1-$2/meta.json $d/ 2>/dev/null; fi; }
ev() { restore $1 $2; tools/seed_eval.sh "$@" 2>&1 | grep "^RESULT\|PATCH DOES NOT\|^FAIL\|^ok" ; }
lane1() {
ev C02 7 internal/rsm/zz_demo_test.go ./internal/rsm -- C08 C11 C02
ev C02 8 internal/raft/zz_demo_test.go ./internal/raft -- C03 C02
ev C04 7 internal/rsm/zz_demo_test.go ./internal/rsm -- C08 C11 C04
ev C05 7 internal/rsm/zz_demo_test.go ./internal/rsm -- C05 C08
ev C05 8 internal/rsm/zz_demo_test.go ./internal/rsm -- C05
ev C06 7 internal/rsm/zz_demo_test.go ./internal/rsm -- C01 C06
}
lane2() {
ev C06 8 internal/raft/zz_demo_test.go ./internal/raft -- C06
ev C07 7 internal/raft/zz_demo_test.go ./internal/raft -- C07 C18
ev C07 8 internal/rsm/zz_demo_test.go ./internal/rsm -- C07
ev C04 8 internal/logdb/zz_demo_test.go ./internal/logdb -- C09 C10
ev C09 8 internal/logdb/zz_demo_test.go ./internal/logdb -- C09
ev C03 8 zz_demo_test.go . -- C04 C03 C01
}
lane3() {
ev C09 7 internal/tan/zz_demo_test.go ./internal/tan -- C09 C10
ev C10 7 internal/tan/zz_demo_test.go ./internal/tan -- C10
ev C10 8 internal/tan/zz_demo_test.go ./internal/tan -- C10
ev C03 7 zz_demo_test.go . ./internal/server -- C20 C04
}
lane4() {
ev C02 7 internal/rsm/zz_demo_test.go ./internal/rsm -- C08
ev C06 8 internal/raft/zz_demo_test.go ./internal/raft -- C06
ev C10 7 internal/tan/zz_demo_test.go ./internal/tan -- C10
}
lane5() {
ev C04 7 internal/rsm/zz_demo_test.go ./internal/rsm -- C08
ev C09 8 internal/logdb/zz_demo_test.go ./internal/logdb -- C09
}
lane6() {
ev C05 7 internal/rsm/zz_demo_test.go ./internal/rsm -- C08
}
"$@"
