#!/bin/bash
# usage: tools/seed_eval.sh <PID> <n> <demo-dest-relpath> <pkg-for-existing-tests...> -- <check ids...>
# verifies a seeded defect (demo fails with it / passes without, existing package tests pass) and runs checks against it
PID=$1; N=$2; DEST=$3; shift 3
PKGS=(); while [ "$1" != "--" ] && [ $# -gt 0 ]; do PKGS+=("$1"); shift; done; shift
CHECKS=("$@")
SRC=/tmp/seedwork-$PID/$N
WT=/tmp/wt-seedeval-$PID-$N
export GOFLAGS=-mod=mod GOPROXY=off GOSUMDB=off GOTOOLCHAIN=local
# only the root package and internal/transport bind TCP port 26001: serialise those, nothing else
lk() { case "$1" in .|./|./internal/transport*|./plugin*) echo "flock /tmp/port26001.lock";; *) echo "";; esac; }
git -C /repo worktree add --detach $WT HEAD >/dev/null 2>&1
OUT=/verif/seeded/$PID-$N; mkdir -p $OUT
cp $SRC/patch.diff $SRC/meta.json $OUT/ 2>/dev/null; cp $SRC/demo_test.go $OUT/demo_test.go 2>/dev/null; cp $SRC/README* $OUT/ 2>/dev/null
DEMOPKG=./$(dirname $DEST)
RES=$OUT/eval.txt; : > $RES
echo "== clean tree: demo" | tee -a $RES
cp $SRC/demo_test.go $WT/$DEST
(cd $WT && $(lk $DEMOPKG) go test -vet=off -count=1 -run 'Demo|ZZ' $DEMOPKG 2>&1 | grep -v "^20" | tail -3) | tee -a $RES
echo "== apply patch" | tee -a $RES
if ! git -C $WT apply $SRC/patch.diff; then echo "PATCH DOES NOT APPLY" | tee -a $RES; fi
(cd $WT && go build ./... 2>&1 | head -3) | tee -a $RES
echo "== patched: demo (must fail)" | tee -a $RES
(cd $WT && $(lk $DEMOPKG) go test -vet=off -count=1 -run 'Demo|ZZ' $DEMOPKG 2>&1 | grep -v "^20" | grep "FAIL\|ok\|---" | head -5) | tee -a $RES
rm -f $WT/$DEST
echo "== patched: existing tests of ${PKGS[*]}" | tee -a $RES
for p in "${PKGS[@]}"; do (cd $WT && $(lk $p) go test -vet=off -count=1 $p 2>&1 | grep -v "^20" | tail -1) | tee -a $RES; done
for id in "${CHECKS[@]}"; do
  echo "== check $id against the patched tree" | tee -a $RES
  O=$(cd /verif && VERIF_STOP_FIRST=1 VERIF_REPO=$WT ./check $id 2>&1); RC=$?
  echo "$O" | grep "^violation\|VIOLATION\|HARNESS\|KNOWN" | cut -c1-400 | head -5 | tee -a $RES
  if [ $RC -eq 1 ]; then echo "RESULT $PID-$N $id: CAUGHT" | tee -a $RES; elif [ $RC -eq 0 ]; then echo "RESULT $PID-$N $id: MISSED" | tee -a $RES; else echo "RESULT $PID-$N $id: HARNESS-ERROR rc=$RC" | tee -a $RES; fi
done
git -C /repo worktree remove --force $WT
