#!/bin/bash
# usage: tools/run_raftx_part.sh <part> <shard> <nshards> [deadline]
BIN=/verif/.work/C02.quick/t_x.bin
export VERIF_PART=$1 VERIF_SHARD=$2/$3 VERIF_DEADLINE_S=${4:-120} VERIF_OUT=/tmp/part_$1_$2.json GOMAXPROCS=${GOMAXPROCS:-4}
cd /tmp && $BIN -test.run '^TestVerifRaftx$' -test.timeout 0 > /tmp/part_$1_$2.log 2>&1
python3 - <<PY
import json
d=json.load(open('/tmp/part_$1_$2.json'))
print('$1 shard $2: states',d['states'],'trans',d['transitions'],'exh',d['exhaustive'],d.get('capped',''))
for k,v in d['extra'].items():
    if k.startswith('cfg:'): print('  ',k, v[:110])
for v in d['violations'][:3]: print('VIOL',v['desc'], v['replay'].get('events'))
PY
tail -3 /tmp/part_$1_$2.log | grep -v PASS
