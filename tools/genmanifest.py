#!/usr/bin/env python3
"""Regenerates /verif/MANIFEST.json from harness/*/check.json and not_applicable.json."""
import json, os
V = os.path.dirname(os.path.dirname(os.path.abspath(__file__)))
checks = []
engines = {}
claimed = set()
for d in sorted(os.listdir(os.path.join(V, "harness"))):
    p = os.path.join(V, "harness", d, "check.json")
    if not os.path.exists(p):
        continue
    c = json.load(open(p))
    if c.get("disabled") or os.path.exists(os.path.join(V, "harness", d, ".lead_disabled")):
        continue
    cid = c["property_id"]
    claimed.add(cid)
    e = {
        "property_id": cid,
        "quick_cmd": "./check %s --tier quick" % cid,
        "thorough_cmd": "./check %s --tier thorough" % cid,
        "evidence_file": "/verif/evidence/%s.json" % cid,
        "replay_cmd_template": "./check %s --replay {path}" % cid,
        "engine": c.get("engine", ""),
        "level_claimed": {"category": c["level"], "text": c.get("level_text", ""), "design_ref": c.get("design_ref", "")},
        "level_note": c.get("level_note", ""),
        "technique": c.get("technique", ""),
    }
    checks.append(e)
    for en in c.get("engine", "").split("+"):
        en = en.strip()
        if en:
            engines.setdefault(en, []).append(cid)
na = []
nap = os.path.join(V, "not_applicable.json")
reasons = json.load(open(nap)) if os.path.exists(nap) else {}
for l in open(os.path.join(V, "properties.jsonl")):
    pid = json.loads(l)["id"]
    if pid not in claimed:
        na.append({"property_id": pid, "reason": reasons.get(pid, "check not built yet in this round (no claim made); see DESIGN.md section 3")})
kinds = {
    "seqx": "exhaustive operation-sequence / input enumeration on the real component against a reference model (E1)",
    "raftx": "explicit-state BFS over a cluster of real raft.Peer + LogReader + rsm.StateMachine replicas (E2)",
    "nodex": "deviation-bounded exploration of real node/engine loop bodies (E3)",
    "crashx": "crash-point / fault enumeration over a journaling vfs (E4)",
    "schedx": "preemption-bounded controlled scheduler over real goroutines (E5)",
}
m = {
    "version": 1,
    "setup_cmd": "./check --setup",
    "hooks": {
        "guard": "verif",
        "enable": "go test -c -tags verif -overlay <generated> -modfile <copy of go.mod>: harness files are injected by overlay, /repo is never edited",
        "baseline_off_cmd": "cd /repo && GOFLAGS=-mod=mod go test -vet=off -count=1 -timeout 25m ./...",
        "source_commits": [],
        "add_only": True,
    },
    "engines": [{"name": k, "path": "/verif/harness", "serves_properties": v, "kind_free_text": kinds.get(k, k)} for k, v in sorted(engines.items())],
    "checks": checks,
    "not_applicable": na,
    "notes": "All checks are ./check <ID>; harness sources are overlaid into /repo packages at build time (no repo edits). See DESIGN.md.",
}
json.dump(m, open(os.path.join(V, "MANIFEST.json"), "w"), indent=1)
print("checks:", len(checks), "not_applicable:", len(na))
