#!/bin/bash
# usage: tools/run_list.sh <tier> <ID>...   runs the given checks one after the other and prints one summary line each
cd /verif
TIER=$1; shift
for id in "$@"; do
  t0=$(date +%s)
  out=$(./check $id --tier $TIER 2>&1); rc=$?
  t1=$(date +%s)
  echo "$id rc=$rc $((t1-t0))s $(echo "$out" | grep '^property=' | cut -c1-200)"
  echo "$out" | grep "VIOLATION\|HARNESS\|EVIDENCE-PROBLEM\|^violation" | cut -c1-400 | head -4
done
