#!/bin/bash
# Re-evaluates every seeded defect kept under /verif/seeded against the current checks.
# Needs the seeds' working copies in /tmp/seedwork-<PID>/<n> (as delivered by the seeding agents) or,
# when those are gone, restores them from /verif/seeded/<PID>-<n>/.
# Three lanes run in parallel; root-package test runs are serialised with flock /tmp/port26001.lock
# (they bind TCP port 26001).
cd /verif
restore() { # restore() <PID> <n>
  local d=/tmp/seedwork-$1/$2
  if [ ! -f $d/patch.diff ]; then mkdir -p $d; cp seeded/$1-$2/patch.diff seeded/$1-$2/demo_test.go seeded/$1-$2/meta.json seeded/$1-$2/README* $d/ 2>/dev/null; fi
}
ev() { restore $1 $2; tools/seed_eval.sh "$@" 2>&1 | grep "^RESULT\|PATCH DOES NOT\|^FAIL\|^ok" ; }
laneA() {
ev C02 2 zz_demo_test.go . -- C02 C04
ev C11 1 zz_c11_demo1_test.go . -- C11
ev C12 1 zz_demo_test.go . -- C12
ev C12 2 zz_demo_test.go . -- C12
ev C16 2 zz_demo_test.go . -- C16
ev C16 1 internal/rsm/zz_demo_test.go ./internal/rsm -- C16
ev C01 1 internal/raft/zz_demo_test.go ./internal/raft -- C01 C06 C18
ev C01 2 internal/raft/zz_demo_test.go ./internal/raft -- C01 C06
ev C02 1 internal/raft/zz_demo_test.go ./internal/raft -- C02 C19
ev C03 1 internal/tan/zz_demo_test.go ./internal/tan -- C10 C04
ev C03 2 internal/raft/zz_demo_test.go ./internal/raft -- C03 C07 C17
ev C04 1 internal/logdb/zz_demo_test.go ./internal/logdb -- C04 C10 C09
ev C04 2 internal/tan/zz_demo_test.go ./internal/tan -- C04 C10
ev C05 1 internal/rsm/zz_demo_test.go ./internal/rsm -- C05
ev C05 2 internal/rsm/zz_demo_test.go ./internal/rsm -- C05
ev C13 1 raftpb/zz_demo_test.go ./raftpb -- C13
ev C13 2 internal/tan/zz_demo_test.go ./raftpb ./internal/tan -- C13
ev C20 1 tools/zz_demo_test.go ./tools -- C20
ev C20 2 tools/zz_demo_test.go ./tools -- C20
}
laneB() {
ev C06 1 internal/raft/zz_demo_test.go ./internal/raft -- C06 C18
ev C06 2 internal/raft/zz_demo_test.go ./internal/raft -- C06
ev C07 1 internal/raft/zz_demo_c07_1_test.go ./internal/raft -- C07 C03
ev C07 2 internal/rsm/zz_demo_c07_2_test.go ./internal/rsm -- C07 C08
ev C08 1 internal/rsm/zz_demo_test.go ./internal/rsm -- C08 C07
ev C08 2 internal/rsm/zz_demo_test.go ./internal/rsm -- C08
ev C09 1 internal/logdb/zz_demo_test.go ./internal/logdb -- C09
ev C09 2 internal/tan/zz_demo_test.go ./internal/tan -- C09
ev C10 1 internal/tan/zz_demo_c10_1_test.go ./internal/tan -- C10
ev C10 2 internal/tan/zz_demo_c10_2_test.go ./internal/tan -- C10
ev C11 2 internal/rsm/zz_c11_demo2_test.go ./internal/rsm -- C11
ev C14 1 internal/transport/zz_demo_test.go ./internal/transport -- C14
ev C14 2 internal/rsm/zz_demo_test.go ./internal/rsm -- C14
ev C15 1 internal/transport/zz_demo_test.go ./internal/transport -- C15
ev C15 2 internal/transport/zz_demo_test.go ./internal/transport -- C15
ev C17 1 internal/raft/zz_demo_c17_1_test.go ./internal/raft -- C17
ev C17 2 internal/raft/zz_demo_c17_2_test.go ./internal/raft -- C17 C06
ev C18 1 internal/raft/zz_demo_test.go ./internal/raft -- C18 C06
ev C18 2 internal/raft/zz_demo_test.go ./internal/raft -- C18 C03
ev C19 1 internal/raft/zz_c19_demo1_test.go ./internal/raft -- C19 C02
ev C19 2 internal/raft/zz_c19_demo2_test.go ./internal/raft -- C19 C02
}
# second round of seeded defects (n = 3, 4)
laneC() {
ev C11 3 zz_c11_demo3_test.go . -- C11
ev C12 3 zz_demo_test.go . -- C12
ev C12 4 zz_demo_test.go . -- C12
ev C16 3 zz_demo_test.go . ./internal/server -- C16
ev C16 4 zz_demo_test.go . -- C16
ev C20 3 zz_demo_test.go . ./internal/logdb -- C20 C09
ev C04 4 zz_demo_test.go . -- C04
ev C08 3 zz_demo_test.go . -- C08 C16
ev C01 4 zz_demo_c01_4_test.go . -- C01 C04
ev C06 4 zz_demo_test.go . -- C06 C12
ev C01 3 internal/rsm/zz_demo_c01_3_test.go ./internal/rsm -- C01 C11
ev C02 3 internal/tan/zz_demo_test.go ./internal/tan -- C02 C09 C10
ev C02 4 internal/logdb/zz_demo_test.go ./internal/logdb -- C02 C10 C04
ev C03 3 internal/raft/zz_demo_test.go ./internal/raft -- C03
ev C03 4 internal/raft/zz_demo_test.go ./internal/raft -- C03 C18
ev C04 3 internal/tan/zz_demo_test.go ./internal/tan -- C04 C10
ev C05 3 internal/rsm/zz_demo_test.go ./internal/rsm -- C05
ev C05 4 internal/rsm/zz_demo_test.go ./internal/rsm -- C05
ev C06 3 internal/raft/zz_demo_test.go ./internal/raft -- C06
ev C07 3 internal/rsm/zz_demo_c07_3_test.go ./internal/rsm -- C07
ev C07 4 internal/rsm/zz_demo_c07_4_test.go ./internal/rsm -- C07
ev C08 4 internal/transport/zz_demo_test.go ./internal/transport -- C08 C16
ev C09 3 internal/logdb/zz_demo_test.go ./internal/logdb -- C09
ev C09 4 internal/tan/zz_demo_test.go ./internal/tan -- C09
ev C10 3 internal/tan/zz_demo_c10_3_test.go ./internal/tan -- C10
ev C10 4 internal/tan/zz_demo_c10_4_test.go ./internal/tan -- C10
ev C11 4 internal/rsm/zz_c11_demo4_test.go ./internal/rsm -- C11
ev C13 3 internal/transport/zz_demo_test.go ./internal/transport -- C13
ev C13 4 internal/transport/zz_demo_test.go ./raftpb ./internal/transport -- C13
ev C14 3 internal/rsm/zz_demo_c14_3_test.go ./internal/rsm -- C14
ev C14 4 internal/rsm/zz_demo_c14_4_test.go ./internal/rsm -- C14
ev C15 3 internal/transport/zz_demo_test.go ./internal/transport -- C15
ev C15 4 internal/transport/zz_demo_test.go ./internal/transport -- C15
ev C18 3 internal/raft/zz_demo_test.go ./internal/raft -- C18
ev C18 4 internal/raft/zz_demo_test.go ./internal/raft -- C18 C07
ev C19 3 internal/raft/zz_c19_demo3_test.go ./internal/raft -- C19
ev C19 4 internal/logdb/zz_c19_demo4_test.go ./internal/logdb -- C19
ev C20 4 tools/zz_demo_test.go ./tools -- C20
ev C17 3 internal/raft/zz_demo_c17_3_test.go ./internal/raft -- C17
ev C17 4 internal/raft/zz_demo_c17_4_test.go ./internal/raft -- C17
}
laneA > /tmp/seed_eval_A.out 2>&1 &
laneB > /tmp/seed_eval_B.out 2>&1 &
laneC > /tmp/seed_eval_C.out 2>&1 &
wait
python3 tools/seed_meta.py
python3 tools/gen_seed_table.py
