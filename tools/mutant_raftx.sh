#!/bin/bash
# usage: tools/mutant_raftx.sh <name> <part> <sed-expr> <file>   ; builds raftx against a mutated worktree and runs all shards of part
set -e
export GOFLAGS=-mod=mod GOPROXY=off GOSUMDB=off GOTOOLCHAIN=local
WT=/tmp/wt-raftx
if [ ! -d $WT ]; then git -C /repo worktree add --detach $WT HEAD >/dev/null 2>&1; fi
git -C $WT checkout -- . 
NAME=$1; PART=$2; EXPR=$3; FILE=$4
sed -i "$EXPR" $WT/$FILE
if git -C $WT diff --quiet; then echo "MUTANT $NAME: sed did not change anything"; exit 2; fi
git -C $WT diff | grep '^[-+]' | grep -v '^+++\|^---' | head -6
sed "s#/repo/#$WT/#g" /verif/.work/C02.quick/overlay.json > /tmp/ov-mut.json
rm -f /tmp/raftx-mut.bin
(cd $WT && go test -c -tags verif -vet=off -overlay /tmp/ov-mut.json -modfile /verif/.work/C02.quick/go.mod -o /tmp/raftx-mut.bin ./internal/raft 2>&1 | head -20)
if [ ! -x /tmp/raftx-mut.bin ]; then echo "MUTANT $NAME: DOES NOT COMPILE"; git -C $WT checkout -- .; exit 3; fi
rm -f /tmp/mut_*.json
N=$5; [ -z "$N" ] && N=6
for i in $(seq 0 $((N-1))); do
 ( export VERIF_PART=$PART VERIF_SHARD=$i/$N VERIF_DEADLINE_S=${DL:-90} VERIF_OUT=/tmp/mut_$i.json GOMAXPROCS=3; rm -f /tmp/mut_$i.json; cd /tmp && /tmp/raftx-mut.bin -test.run '^TestVerifRaftx$' -test.timeout 0 > /tmp/mut_$i.log 2>&1 ) &
done
wait
python3 - <<PY
import json,glob
tot=0
for f in sorted(glob.glob('/tmp/mut_*.json')):
    d=json.load(open(f))
    for v in d['violations'][:2]:
        tot+=1
        print('  CAUGHT', list(k for k in d['extra'] if k.startswith('cfg:')), v['desc'][:160], 'len', len(v['replay'].get('events',[])))
print('MUTANT $NAME:', 'CAUGHT' if tot else 'MISSED')
PY
git -C $WT checkout -- .
