#!/bin/bash
# usage: tools/tune_raftx.sh '<json cfg>' [deadline_s]   (needs .work/C02.quick/*.bin from ./check C02 --keep)
BIN=$(ls /verif/.work/C02.quick/t_*.bin | head -1)
export VERIF_PART=tune VERIF_RAFTX_CFG="$1" VERIF_DEADLINE_S=${2:-60} VERIF_OUT=/tmp/tune_out.json GOMAXPROCS=${GOMAXPROCS:-8}
cd /tmp && $BIN -test.run '^TestVerifRaftx$' -test.timeout 0 > /tmp/tune.log 2>&1
python3 - <<'PY'
import json
d=json.load(open('/tmp/tune_out.json'))
print('states',d['states'],'trans',d['transitions'],'exh',d['exhaustive'],d.get('capped',''))
for k,v in d['extra'].items():
    if k.startswith('cfg:'): print(v[:400])
for v in d['violations'][:3]: print('VIOL',v['desc'], v['replay'].get('events'))
PY
