#!/bin/bash
# runs every registered check (quick tier unless $1=thorough) on the unchanged tree and prints a summary
cd /verif
TIER=${1:-quick}
for id in $(python3 -c "import json;print(' '.join(c['property_id'] for c in json.load(open('MANIFEST.json'))['checks']))"); do
  t0=$(date +%s)
  out=$(./check $id --tier $TIER 2>&1); rc=$?
  t1=$(date +%s)
  echo "$id rc=$rc $((t1-t0))s $(echo "$out" | grep '^property=' | cut -c1-200)"
  echo "$out" | grep "VIOLATION\|HARNESS\|EVIDENCE-PROBLEM" | head -3
done
