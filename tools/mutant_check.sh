#!/bin/bash
# usage: tools/mutant_check.sh <name> <check-id> <file> <sed-expr> [more file/sed pairs...]
# applies the mutation in a private worktree, runs ./check <id> against it, reports CAUGHT/MISSED
NAME=$1; ID=$2; shift 2
WT=/tmp/wt-mut-$ID
export GOFLAGS=-mod=mod GOPROXY=off GOSUMDB=off GOTOOLCHAIN=local
if [ ! -d $WT ]; then git -C /repo worktree add --detach $WT HEAD >/dev/null 2>&1; fi
git -C $WT checkout -q --detach $(git -C /repo rev-parse HEAD) 2>/dev/null
git -C $WT checkout -- .
while [ $# -ge 2 ]; do sed -i "$2" $WT/$1; shift 2; done
if git -C $WT diff --quiet; then echo "MUTANT $NAME: sed did not change anything"; exit 2; fi
git -C $WT diff | grep '^[-+]' | grep -v '^+++\|^---' | head -8
(cd $WT && go build ./... 2>&1 | head -5)
OUT=$(cd /verif && VERIF_STOP_FIRST=1 VERIF_REPO=$WT ./check $ID $CHECKARGS 2>&1)
RC=$?
echo "$OUT" | grep "^violation\|VIOLATION\|HARNESS" | cut -c1-300 | head -6
if [ $RC -eq 1 ]; then echo "MUTANT $NAME ($ID): CAUGHT"; elif [ $RC -eq 0 ]; then echo "MUTANT $NAME ($ID): MISSED"; else echo "MUTANT $NAME ($ID): HARNESS-ERROR rc=$RC"; fi
git -C $WT checkout -- .
