#!/usr/bin/env python3
"""Merges the evaluation log (eval.txt) of each /verif/seeded/<id>/ into its meta.json and prints a summary table."""
import json, os, re, glob
V = os.path.dirname(os.path.dirname(os.path.abspath(__file__)))
rows = []
for d in sorted(glob.glob(os.path.join(V, "seeded", "*"))):
    if not os.path.isdir(d):
        continue
    ev = os.path.join(d, "eval.txt")
    mp = os.path.join(d, "meta.json")
    if not os.path.exists(ev):
        continue
    txt = open(ev, errors="replace").read()
    try:
        meta = json.load(open(mp))
    except Exception:
        meta = {}
    res = dict(re.findall(r"RESULT \S+ (\S+): (\S+)", txt))
    sect = re.split(r"^== ", txt, flags=re.M)
    demo_clean = next((s for s in sect if s.startswith("clean tree: demo")), "")
    demo_patched = next((s for s in sect if s.startswith("patched: demo")), "")
    existing = next((s for s in sect if s.startswith("patched: existing tests")), "")
    meta["verified_by_lead"] = {
        "demo_passes_on_clean_tree": "ok" in demo_clean and "FAIL" not in demo_clean,
        "demo_fails_with_patch": "FAIL" in demo_patched,
        "existing_package_tests_with_patch": [l for l in existing.splitlines()[1:] if l.strip()],
        "checks_run": res,
        "how": "tools/seed_eval.sh: patch applied in a scratch worktree of /repo HEAD, demo run both ways, existing package tests run, then ./check <ID> with VERIF_REPO pointing at the patched worktree",
    }
    json.dump(meta, open(mp, "w"), indent=1)
    rows.append((os.path.basename(d), meta.get("title", "")[:70], res))
for r in rows:
    print("%-8s %-72s %s" % r)
