#!/bin/bash
export GOFLAGS=-mod=mod GOPROXY=off GOSUMDB=off GOTOOLCHAIN=local
cd /repo && go test -c -tags verif -vet=off -overlay /verif/.work/C02.quick/overlay.json -modfile /verif/.work/C02.quick/go.mod -o /verif/.work/C02.quick/t_x.bin ./internal/raft 2>&1 | head -30
