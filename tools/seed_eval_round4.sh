#!/bin/bash
# Fourth, partial round of independently seeded defects (n = 7, 8; C01 C08 C11 C12 C16 C17).
cd /verif
restore() { local d=/tmp/seedwork-$1/$2; if [ ! -f $d/patch.diff ]; then mkdir -p $d; cp seeded/$1-$2/patch.diff seeded/$1-$2/demo_test.go seeded/$1-$2/meta.json $d/ 2>/dev/null; fi; }
ev() { restore $1 $2; tools/seed_eval.sh "$@" 2>&1 | grep "^RESULT\|PATCH DOES NOT\|^FAIL\|^ok" ; }
lane1() {
ev C01 7 internal/rsm/zz_demo_test.go ./internal/rsm -- C01 C08 C05
ev C08 7 internal/rsm/zz_demo_test.go ./internal/rsm -- C08 C14 C15
ev C08 8 internal/rsm/zz_demo_test.go ./internal/rsm -- C08 C01 C11
ev C11 8 internal/rsm/zz_demo_test.go ./internal/rsm -- C11
ev C16 7 internal/rsm/zz_demo_test.go ./internal/rsm -- C16 C08 C11
}
lane2() {
ev C11 7 zz_demo_test.go . -- C11
ev C12 7 zz_demo_test.go . -- C12
ev C12 8 zz_demo_test.go . -- C12 C11
ev C16 8 zz_demo_test.go . -- C16 C20
ev C17 8 zz_demo_test.go . -- C17 C12
ev C01 8 internal/transport/zz_demo_test.go ./internal/transport -- C01 C17
ev C17 7 internal/transport/zz_demo_test.go ./internal/transport -- C17 C15
}
lane3() {
ev C01 7 internal/rsm/zz_demo_test.go ./internal/rsm -- C01
ev C08 8 internal/rsm/zz_demo_test.go ./internal/rsm -- C01
ev C16 7 internal/rsm/zz_demo_test.go ./internal/rsm -- C08 C11
ev C01 8 internal/transport/zz_demo_test.go ./internal/transport -- C01
}
lane4() {
ev C11 7 zz_demo_test.go . -- C11
ev C12 8 zz_demo_test.go . -- C12
ev C16 8 zz_demo_test.go . -- C16
}
lane5() {
ev C17 7 internal/transport/zz_demo_test.go ./internal/transport -- C17
}
"$@"
