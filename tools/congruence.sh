#!/bin/bash
# Canonical-form congruence probe (verifkit.CongruenceProbe) for every configuration of the raftx and nodex engines
# and for C19: states with equal canonical description must have equal futures (enabled events, failures, successor states).
# usage: tools/congruence.sh [states] [depth]      (default 3000 states, look-ahead 1)
cd /verif
N=${1:-3000}; D=${2:-1}
./check C02 --build-only >/dev/null 2>&1
./check C01 --build-only >/dev/null 2>&1
./check C19 --build-only >/dev/null 2>&1
RB=$(for b in .work/C02.build/t_*.bin; do $b -test.list Raftx 2>/dev/null | grep -q Congruence && echo $b; done | head -1)
NB=$(for b in .work/C01.build/t_*.bin; do $b -test.list Nodex 2>/dev/null | grep -q Congruence && echo $b; done | head -1)
CB=$(ls .work/C19.build/t_*.bin | head -1)
export VERIF_CONGRUENCE=1 VERIF_CONGRUENCE_STATES=$N VERIF_CONGRUENCE_DEPTH=$D
for p in c02 c03 c06 c07 c17 c18; do VERIF_PART=$p $RB -test.run TestVerifRaftxCongruence -test.timeout 0 2>&1 | grep "^CONGRUENCE\|^same\|^ A:\|^ B:" | cut -c1-400 & done
wait
for p in c01 c04 c11 c12 c17; do VERIF_NODEX_PART=$p $NB -test.run TestVerifNodexCongruence -test.timeout 0 2>&1 | grep "^CONGRUENCE\|^same\|^ A:\|^ B:" | cut -c1-400 & done
wait
for m in 1 split; do VERIF_CONGRUENCE=$m $CB -test.run TestVerifC19Congruence 2>&1 | grep "congruence probe\|^ A:\|^ B:" | cut -c1-400; done
rm -rf .work/C02.build .work/C01.build .work/C19.build
