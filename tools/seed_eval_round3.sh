#!/bin/bash
# Third round of independently seeded defects (n = 5, 6): evaluates the seeds delivered in /tmp/seedwork-<PID>/<n>
# (restored from /verif/seeded when gone). usage: tools/seed_eval_round3.sh <lane>
cd /verif
restore() { local d=/tmp/seedwork-$1/$2; if [ ! -f $d/patch.diff ]; then mkdir -p $d; cp seeded/$1-$2/patch.diff seeded/$1-$2/demo_test.go seeded/$1-$2/meta.json $d/ 2>/dev/null; fi; }
ev() { restore $1 $2; tools/seed_eval.sh "$@" 2>&1 | grep "^RESULT\|PATCH DOES NOT\|^FAIL\|^ok" ; }
lane1() {
ev C01 5 internal/raft/zz_demo_test.go ./internal/raft -- C01 C06 C18
ev C01 6 zz_demo_test.go . -- C12 C06 C01
ev C03 5 internal/tan/zz_demo_test.go ./internal/tan -- C10 C04
ev C03 6 internal/raft/zz_demo_test.go ./internal/raft -- C03 C07 C17
ev C04 5 zz_demo_test.go . -- C04 C01
ev C04 6 internal/tan/zz_demo_test.go ./internal/tan -- C10 C04
ev C05 5 internal/rsm/zz_demo_test.go ./internal/rsm -- C05
}
lane2() {
ev C05 6 internal/rsm/zz_demo_test.go ./internal/rsm -- C05
ev C06 5 internal/raft/zz_demo_test.go ./internal/raft -- C06 C01
ev C06 6 zz_demo_test.go . -- C12 C06
ev C07 5 internal/rsm/zz_demo_test.go ./internal/rsm -- C07 C08
ev C07 6 tools/zz_demo_test.go ./tools -- C20 C07
ev C08 5 internal/rsm/zz_demo_test.go ./internal/rsm -- C08 C07
ev C08 6 internal/tan/zz_demo_test.go ./internal/tan -- C10 C09 C08
}
lane3() {
ev C09 5 internal/tan/zz_demo_test.go ./internal/tan -- C09 C10
ev C09 6 internal/logdb/zz_demo_test.go ./internal/logdb -- C09 C10
ev C10 5 internal/tan/zz_demo_test.go ./internal/tan -- C10
ev C10 6 internal/logdb/zz_demo_test.go ./internal/logdb -- C10 C09 C04
ev C02 5 internal/tan/zz_demo_test.go ./internal/tan -- C09 C10 C02
}
laneA() {
ev C03 5 internal/tan/zz_demo_test.go ./internal/tan -- C10 C04
ev C03 6 internal/raft/zz_demo_test.go ./internal/raft -- C03 C07
ev C04 6 internal/tan/zz_demo_test.go ./internal/tan -- C10
ev C05 5 internal/rsm/zz_demo_test.go ./internal/rsm -- C05
ev C02 5 internal/tan/zz_demo_test.go ./internal/tan -- C09
ev C02 6 internal/raft/zz_demo_test.go ./internal/raft -- C02
ev C13 6 internal/logdb/zz_demo_test.go ./internal/logdb -- C13 C09
}
laneB() {
ev C08 5 internal/rsm/zz_demo_test.go ./internal/rsm -- C08 C07
ev C08 6 internal/tan/zz_demo_test.go ./internal/tan -- C10 C09 C08
ev C18 5 internal/rsm/zz_demo_test.go ./internal/rsm -- C18 C07 C08 C02
ev C18 6 internal/raft/zz_demo_test.go ./internal/raft -- C18 C03 C06
ev C14 5 internal/rsm/zz_demo_test.go ./internal/rsm -- C14
ev C14 6 internal/rsm/zz_demo_test.go ./internal/rsm -- C14
ev C16 6 internal/rsm/zz_demo_test.go ./internal/rsm -- C16
}
laneC() {
ev C04 5 zz_demo_test.go . -- C04 C01
ev C07 6 tools/zz_demo_test.go ./tools -- C20 C07
ev C11 3 zz_c11_demo3_test.go . -- C11
ev C17 4 internal/raft/zz_demo_c17_4_test.go ./internal/raft -- C17
ev C13 5 internal/transport/zz_demo_test.go ./internal/transport -- C13 C15
ev C16 5 internal/transport/zz_demo_test.go ./internal/transport -- C16 C15
}
laneD() {
ev C20 5 tools/zz_demo_test.go ./tools -- C20
ev C20 6 tools/zz_demo_test.go ./tools ./internal/rsm -- C20 C14
}
laneE() {
ev C12 5 zz_demo_test.go . -- C12
ev C12 6 zz_demo_test.go . -- C12
}
laneF() {
ev C15 5 internal/transport/zz_demo_test.go ./internal/transport -- C15 C14
ev C15 6 internal/transport/zz_demo_send_test.go ./internal/transport -- C15
ev C17 5 internal/transport/zz_demo_test.go ./internal/transport -- C15 C17
ev C19 5 internal/raft/zz_demo_test.go ./internal/raft -- C19 C02
ev C19 6 internal/logdb/zz_demo_test.go ./internal/logdb -- C19
}
laneG() {
ev C17 6 zz_demo_test.go . -- C17 C11
ev C11 5 internal/rsm/zz_demo_test.go ./internal/rsm -- C11 C08
ev C11 6 zz_demo_test.go . -- C11
ev C20 5 tools/zz_demo_test.go ./tools -- C20
}
laneH() {
ev C15 6 internal/transport/zz_demo_send_test.go ./internal/transport -- C15
ev C17 6 zz_demo_test.go . -- C17
ev C19 5 internal/raft/zz_demo_test.go ./internal/raft -- C19
}
laneI() {
ev C19 6 internal/logdb/zz_demo_test.go ./internal/logdb -- C19
ev C11 6 zz_demo_test.go . -- C11
ev C13 5 internal/transport/zz_demo_test.go ./internal/transport -- C15 C13
}
"$@"
