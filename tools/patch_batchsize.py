#!/usr/bin/env python3
"""Generate step: in the copy of internal/transport/transport.go that schedrewrite wrote into
<work>/schedx/, replace the batch size limit (64 MiB constant) by a small value so that the
two-batch path of processMessages is reachable with small messages.
usage: patch_batchsize.py <work> <bytes>   Fails loudly when the anchor is not found exactly once."""
import sys, os, re
work, n = sys.argv[1], int(sys.argv[2])
p = os.path.join(work, "schedx", "internal__transport__transport.go")
s = open(p).read()
anchor = "maxMsgBatchSize = settings.MaxMessageBatchSize"
if s.count(anchor) != 1:
    sys.stderr.write("patch_batchsize.py: ANCHOR MISSING: %r found %d times in %s\n" % (anchor, s.count(anchor), p))
    sys.exit(3)
s = s.replace(anchor, "maxMsgBatchSize = %d + 0*settings.MaxMessageBatchSize" % n)
open(p, "w").write(s)
print("patch_batchsize: maxMsgBatchSize = %d in %s" % (n, p))
