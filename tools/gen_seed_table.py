#!/usr/bin/env python3
"""Writes the seeded-defect table into DESIGN.md between the SEEDTABLE markers."""
import json, glob, os, re
V=os.path.dirname(os.path.dirname(os.path.abspath(__file__)))
rows=[]
for d in sorted(glob.glob(os.path.join(V,'seeded','*'))):
    mp=os.path.join(d,'meta.json')
    if not os.path.isdir(d) or not os.path.exists(mp): continue
    m=json.load(open(mp))
    v=m.get('verified_by_lead',{})
    res=v.get('checks_run',{})
    first=m.get('first_round',{})
    caught=[k for k,x in res.items() if x=='CAUGHT']
    missed=[k for k,x in res.items() if x!='CAUGHT']
    rows.append('| %s | %s | %s | %s | %s |' % (os.path.basename(d), m.get('title','').replace('|','/')[:110],
        (m.get('needs','') or '').replace('|','/').replace('\n',' ')[:160], ', '.join(caught) or '–', ', '.join(missed) or '–'))
tab='| id | seeded change | needs | caught by | not caught by |\n|---|---|---|---|---|\n'+'\n'.join(rows)
p=os.path.join(V,'DESIGN.md')
s=open(p).read()
s=re.sub(r'<!-- SEEDTABLE:BEGIN -->.*?<!-- SEEDTABLE:END -->','<!-- SEEDTABLE:BEGIN -->\n'+tab+'\n<!-- SEEDTABLE:END -->',s,flags=re.S)
open(p,'w').write(s)
print(len(rows),'rows')
